"""C14 — Member lookup compares keys by exact bytes: clauses (a) the wide loads of
the short path are taken only under the page guard, whose expression is evaluated
over all page offsets; absent under sanitizer macros, (b) every access of the
comparison routines lies inside [0, s) and - added after seeded change C14-1 -
every byte of [0, s) takes part in a comparison, for every length up to five
vector blocks (abstract evaluation of the all-equal skeleton), (c) the linear
lookup guards the byte comparison by length equality; the map comparator
compares min(n1, n2) bytes and breaks ties on length, (d) the dynamic-dispatch
build routes the lookup to the StringView comparison (DESIGN.md section 5/C14)."""
from ..core import get_facts, strip, strip_expect, cval, show, walk, locline, AnalysisBroken
from ..e2_dom import Must
from ..memcmp_skel import Skeleton, Ptr, Unsupported
from .c09 import eval_guard

AVX2 = 'sonic_json::internal::avx2::'


def clause_a(facts, rep, sanitize):
    fs = [f for f in facts.functions if f.short == 'in_page_32']
    rep.require(len(fs) >= 1, 'C14.a: in_page_32 not found')
    for f in fs:
        rep.fn(f)
        rets = [strip(s) for _, _, s in f.stmts() if strip(s).get('k') == 'ret']
        if sanitize:
            rep.check(len(rets) == 1 and cval(rets[0]['e']) == 0, 'E3.page-guard', f.qn, 'returns false unconditionally under sanitizer macros', f.loc,
                      'the over-reading fast path must be disabled when a sanitizer is active', facts.config)
            continue
        # evaluate the guard for every page offset of one operand against a set of offsets of the other
        env_ids = {p['name']: p['id'] for p in f.params}
        # the function computes locals; interpret its body with the tiny evaluator
        bad = None
        n = 0
        try:
            from ..minterp import Interp, Unsupported, UndefinedBehaviour
            others = [0, 1, 31, 2048, 4063, 4064, 4065, 4095]
            it = Interp(f, facts)
            for oa in range(4096):
                for ob in others + [oa]:
                    # both address orders: the operand near the end of its page may be the lower or the higher one
                    for pa, pb in ((0x10000, 0x30000), (0x50000, 0x20000)):
                        n += 1
                        try:
                            got = it.run({env_ids['a']: pa + oa, env_ids['b']: pb + ob}, {})[0]
                        except UndefinedBehaviour as ex:
                            bad = (oa, ob, 'undefined behaviour: %s' % ex)
                            break
                        if got and (oa + 32 > 4096 or ob + 32 > 4096):
                            bad = (oa, ob, 'a below b' if pa < pb else 'a above b')
                            break
                    if bad:
                        break
                if bad:
                    break
        except Unsupported as ex:
            raise AnalysisBroken('C14.a: in_page_32 not evaluable: %s' % ex)
        rep.extra['page_guard_evaluations'] = rep.extra.get('page_guard_evaluations', 0) + n
        rep.check(bad is None, 'E3.page-guard', f.qn, 'true only when a 32-byte load from either operand stays inside its page', f.loc,
                  'true for page offsets (a, b) = %s' % (bad,), facts.config)
    # the 32-byte loads of the short path are dominated by the guard
    m = 0
    for f in facts.functions:
        if f.short not in ('is_eq_lt_32', 'cmp_lt_32'):
            continue
        rep.fn(f)

        def gen_edge(b, cond, sense):
            c = strip_expect(cond)
            if c is not None and c.get('k') == 'call' and c.get('cname') == 'in_page_32' and sense:
                return ['inpage']
            return []
        M = Must(f, gen_edge=gen_edge)
        for bid, i, s, e in f.walk():
            if e.get('k') == 'call' and e.get('cname') == '_mm256_loadu_si256':
                st = M.at(bid, i)
                if st is None:
                    continue
                m += 1
                rep.check('inpage' in st, 'E2.guarded-load', f.qn, show(e)[:60], locline(e['loc']),
                          'a 32-byte load from a buffer shorter than 32 bytes is allowed only under the page guard', facts.config)
    if not sanitize:
        rep.require(m >= 4, 'C14.a: guarded loads found: %d' % m)


def run_bool(f, env):
    env = dict(env)
    b = f.entry
    for _ in range(50):
        B = f.blocks[b]
        for s in B['stmts']:
            s_ = strip(s)
            if s_.get('k') == 'ret':
                return eval_guard(s_['e'], env)
            if s_.get('k') == 'decl':
                for v in s_['vars']:
                    if v.get('init') is not None:
                        env[v['id']] = eval_guard(v['init'], env)
        t = B.get('term')
        succs = B['succs']
        if t and t.get('cond') is not None and len(succs) == 2:
            b = succs[0] if eval_guard(t['cond'], env) else succs[1]
        else:
            b = [x for x in succs if x is not None][0]
    raise KeyError('no return')


def clause_b(facts, rep, tier):
    limit = 161 if tier == 'quick' else 300
    for name in ('InlinedMemcmpEq', 'InlinedMemcmp'):
        fs = [f for f in facts.functions if f.qn == AVX2 + name]
        rep.require(len(fs) == 1, 'C14.b: %s not found' % name)
        for f in fs:
            rep.fn(f)
            bad_cov = bad_acc = bad_err = None
            n = 0
            try:
                for s in range(0, limit):
                    for inpage in ((True, False) if s <= 64 else (False,)):      # which lengths take the in-page path is the code's choice
                        sk = Skeleton(facts, s, inpage)
                        r = sk.call(f, [Ptr('A', 0), Ptr('B', 0), s])
                        n += 1
                        equal_result = (r != 0) if name == 'InlinedMemcmpEq' else (r == 0)
                        if not equal_result and bad_err is None:
                            bad_err = (s, 'equal buffers reported as different')
                        if sk.errors and bad_err is None:
                            bad_err = (s, sk.errors[0])
                        missing = sorted(set(range(s)) - sk.covered)
                        if missing and bad_cov is None:
                            bad_cov = (s, inpage, missing[:6])
                        for base, off, w, fn_short, loc in sk.accesses:
                            guarded = inpage and fn_short in ('is_eq_lt_32', 'cmp_lt_32')
                            if (off < 0 or off + w > s) and not guarded and bad_acc is None:
                                bad_acc = (s, base, off, w, loc)
            except Unsupported as ex:
                raise AnalysisBroken('C14.b: %s uses a construct the skeleton evaluator does not model: %s' % (name, ex))
            rep.extra['skeleton_runs'] = rep.extra.get('skeleton_runs', 0) + n
            rep.check(bad_acc is None, 'E3.compare-bounds', f.qn, 'every access lies inside [0, s) (or under the page guard) for s = 0..%d' % (limit - 1), f.loc,
                      'counter-example (s, buffer, offset, width, where): %s' % (bad_acc,), facts.config)
            rep.check(bad_cov is None, 'E3.compare-coverage', f.qn, 'every byte of [0, s) takes part in a comparison for s = 0..%d' % (limit - 1), f.loc,
                      'bytes never compared (s, in_page, offsets): %s - keys differing only there would be reported equal' % (bad_cov,), facts.config)
            rep.check(bad_err is None, 'E3.compare-coverage', f.qn, 'both operands are read at the same offsets; equal buffers compare equal', f.loc, str(bad_err), facts.config)


def eval_map_order(f, facts):
    """evaluate the lookup-map comparator (sv/minterp.py over its CFG; string-view accessors and the three-way compare,
    which has its own rules, are answered from the model) on key pairs that differ at the first / an inner / the last
    byte or are prefixes of one another, with bytes on both sides of 0x80, for lengths on both sides of 16 and 32.
    The answer must be plain unsigned lexicographic order: a strict weak order that does not depend on key length."""
    from ..minterp import Interp, Unsupported, UndefinedBehaviour, wrap
    if len(f.params) != 2:
        raise AnalysisBroken('C14: map comparator with %d parameters' % len(f.params))
    ids = [p_['id'] for p_ in f.params]
    alpha = [0x00, 0x41, 0x7f, 0x80, 0xff]
    keys = set()
    for L in (0, 1, 2, 7, 15, 16, 17, 31, 32, 33, 40):
        base = bytes([0x61] * L)
        keys.add(base)
        for pos in sorted(set([0, L // 2, L - 1])):
            if 0 <= pos < L:
                for b in alpha:
                    k = bytearray(base)
                    k[pos] = b
                    keys.add(bytes(k))
    keys = sorted(keys)
    strs = {}

    def hook(e, args, env, members):
        name = e.get('cname')
        obj = strip(e.get('obj')) if e.get('obj') is not None else None
        while obj is not None and obj.get('k') == 'cast':
            obj = strip(obj['e'])
        S = strs.get(obj.get('id')) if obj is not None and obj.get('k') == 'ref' else None
        if S is None and e.get('opcall') and e.get('args'):
            o2 = strip(e['args'][0])
            while o2 is not None and o2.get('k') == 'cast':
                o2 = strip(o2['e'])
            if o2 is not None and o2.get('k') == 'ref':
                S = strs.get(o2.get('id'))
        if S is not None:
            if name in ('size', 'length'):
                return len(S)
            if name == 'empty':
                return int(len(S) == 0)
            if name == 'data':
                return ('ptr', S, 0)
            if name in ('operator[]', 'at'):
                i = args[-1]
                if not 0 <= i < len(S):
                    raise UndefinedBehaviour('key byte %d of %d read' % (i, len(S)))
                return wrap(S[i], e.get('t', 'char').replace('const ', '').replace('&', '').strip() or 'char')
            raise Unsupported('string view accessor %s' % name)
        if name in ('InlinedMemcmp', 'memcmp', '__builtin_memcmp') and len(args) == 3 and all(isinstance(a, tuple) for a in args[:2]):
            a, b, k = args
            x, y = a[1][a[2]:a[2] + k], b[1][b[2]:b[2] + k]
            if len(x) < k or len(y) < k:
                raise UndefinedBehaviour('three-way compare over %d bytes of keys with %d / %d bytes' % (k, len(a[1]), len(b[1])))
            return (x > y) - (x < y)
        return None
    bad = None
    cnt = 0
    try:
        for a in keys:
            for b in keys:
                strs[ids[0]], strs[ids[1]] = a, b
                r = Interp(f, facts, call_hook=hook).run({ids[0]: ('sv', a), ids[1]: ('sv', b)}, {})[0]
                cnt += 1
                if bool(r) != (a < b):
                    bad = 'Less(%s, %s) = %s although the unsigned byte order says %s' % (a.hex() or "''", b.hex() or "''", bool(r), a < b)
                    return bad, cnt
    except UndefinedBehaviour as ex:
        return 'undefined behaviour: %s' % ex, cnt
    except Unsupported as ex:
        raise AnalysisBroken('C14: the map comparator cannot be evaluated: %s' % ex)
    return bad, cnt


def clause_eq_length(facts, rep, files=('sonic/dom/', 'internal/arch/simd_skip.h'), min_sites=2):
    """keys are equal only if their lengths are: every byte-wise EQUALITY comparison (memcmp family / InlinedMemcmpEq)
    one operand of which is the character data of a string view is dominated by an equality test involving that
    view's size (or a variable initialised from it).  Comparing s.size() bytes of a longer name is a prefix test.
    The three-way comparator of the lookup map is decided separately (E2.map-order, by evaluation)."""
    CMP = ('memcmp', '__builtin_memcmp', 'InlinedMemcmpEq', 'bcmp', 'strncmp')
    n = 0
    seen = set()
    for f in facts.functions:
        if not any(x in f.file for x in files) or (f.short == 'operator()' and 'Less' in (f.cls_qn or '')):
            continue
        sites = []
        from ..core import tightest
        for bid, i, s_, e in tightest(f, lambda e: e.get('k') == 'call' and e.get('cname') in CMP and len(e.get('args', [])) == 3):
            if True:
                views = []
                for a in e['args'][:2]:
                    a_ = strip(a)
                    while a_ is not None and a_.get('k') == 'cast':
                        a_ = strip(a_['e'])
                    if a_ is not None and a_.get('k') == 'call' and a_.get('cname') == 'data' and a_.get('obj') is not None:
                        views.append(show(strip(a_['obj'])))
                if views:
                    sites.append((bid, i, e, views))
        if not sites:
            continue
        key = (f.qn.split('<')[0], f.loc)
        if key in seen:
            continue
        seen.add(key)
        rep.fn(f)
        # variables initialised / assigned from V.size()
        sized = {}
        for bid, i, s_ in f.stmts():
            st = strip(s_)
            if isinstance(st, dict) and st.get('k') == 'decl':
                for vd in st['vars']:
                    for x in walk(vd.get('init') or {}):
                        if x.get('k') == 'call' and x.get('cname') in ('size', 'length', 'Size') and x.get('obj') is not None:
                            sized.setdefault(vd['id'], set()).add(show(strip(x['obj'])))

        def size_objs(c):
            out = set()
            for x in walk(c):
                if x.get('k') == 'call' and x.get('cname') in ('size', 'length', 'Size') and x.get('obj') is not None:
                    out.add(show(strip(x['obj'])))
                if x.get('k') == 'ref' and x.get('id') in sized:
                    out |= sized[x['id']]
            return out

        def gen_edge(b, cond, sense):
            c = strip_expect(cond)
            if c is not None and c.get('k') == 'bin' and ((c['op'] == '==' and sense) or (c['op'] == '!=' and not sense)):
                return ['len:' + o for o in size_objs(c)]
            return []
        M = Must(f, gen_edge=gen_edge)
        for bid, i, e, views in sites:
            st = M.at(bid, i)
            if st is None:
                continue
            n += 1
            ok = any(('len:' + v) in st for v in views)
            rep.check(ok, 'E2.key-length', f.qn, show(e)[:80], locline(e['loc']),
                      'the byte comparison must be dominated by an equality test of the size of %s' % ' / '.join(views), facts.config)
    rep.require(n >= min_sites, 'C14: %d equality comparisons of string-view data found (>= %d expected)' % (n, min_sites))
    return n


def clause_mask_arith(facts, rep, files=('arch/avx2/base.h', 'arch/sse/base.h', 'x86_common/', 'arch/avx2/', 'arch/sse/')):
    """no signed overflow on a comparison mask: `_mm256_movemask_epi8` returns an int that takes every 32-bit pattern
    (0x7FFFFFFF when only the last byte of a block differs, 0x80000000 when only that byte is equal), so `+ 1`, `- 1`,
    unary minus or a multiplication applied to it at type int overflows for a valid input - undefined behaviour, a
    run-time error in a -fsanitize=undefined build.  The arithmetic has to be done on the mask converted to unsigned."""
    n = 0
    seen = set()
    for f in facts.functions:
        if not any(x in f.file for x in files):
            continue
        for bid, i, s_, e in f.walk():
            if e.get('k') != 'bin' or e['op'] not in ('+', '-', '*', '<<'):
                continue
            t = (e.get('t') or '').replace('const ', '')
            if t not in ('int', 'long', 'short'):
                continue

            def is_mm(x):
                x_ = strip(x)
                while x_ is not None and x_.get('k') == 'cast' and (x_.get('t') or '').replace('const ', '') in ('int',):
                    x_ = strip(x_['e'])
                return x_ is not None and x_.get('k') == 'call' and (x_.get('cname') or '') in ('_mm256_movemask_epi8',)
            if not (is_mm(e['l']) or is_mm(e['r'])):
                continue
            key = (f.qn.split('<')[0], locline(e['loc']))
            if key in seen:
                continue
            seen.add(key)
            rep.fn(f)
            other = e['r'] if is_mm(e['l']) else e['l']
            c = cval(other)
            # the mask ranges over all of int: x + c overflows for c != 0, x - c likewise, x * c for |c| > 1, x << c for c > 0
            ok = (c == 0) if e['op'] in ('+', '-', '<<') else (c in (0, 1))
            n += 1
            rep.check(ok, 'E5.mask-arith', f.qn, show(e), locline(e['loc']),
                      'signed %s on a value that takes every int pattern: overflows (undefined behaviour) for a block in which only the last byte differs / matches' % e['op'], facts.config)
    return n


def clause_c(facts, rep):
    n = 0
    seen = set()
    for f in facts.functions:
        if f.cls_qn == 'sonic_json::DNode' and f.short == 'findMemberImpl' and len(f.params) == 2:
            def gen_edge(b, cond, sense):
                c = strip_expect(cond)
                if c is not None and c.get('k') == 'bin' and c['op'] == '==' and sense:
                    has_size = any(x.get('k') == 'call' and x.get('cname') == 'size' for x in walk(c))
                    has_len = any(x.get('k') == 'ref' and x.get('name') == 'len' for x in walk(c))
                    if has_size and has_len:
                        return ['sameLen']
                return []
            M = Must(f, gen_edge=gen_edge)
            for bid, i, s, e in f.walk():
                if e.get('k') == 'call' and e.get('cname') == 'InlinedMemcmpEq':
                    st = M.at(bid, i)
                    if st is None or f.loc in seen:
                        continue
                    n += 1
                    rep.fn(f)
                    rep.check('sameLen' in st, 'E2.key-length', f.qn, show(e)[:70], locline(e['loc']),
                              'the byte comparison over len bytes must be dominated by name.size() == len', facts.config)
            seen.add(f.loc)
        if f.short == 'operator()' and 'Less' in (f.cls_qn or ''):
            if f.loc in seen:
                continue
            seen.add(f.loc)
            rep.fn(f)
            n += 1
            bad, cnt = eval_map_order(f, facts)
            rep.check(bad is None, 'E2.map-order', f.qn, 'the map comparator equals unsigned lexicographic byte order (%d key pairs evaluated)' % cnt, f.loc,
                      bad or '', facts.config)
    return n


def clause_d(facts4, rep):
    n = 0
    for f in facts4.functions:
        if f.cls_qn == 'sonic_json::DNode' and f.short == 'findMemberImpl' and len(f.params) == 2:
            calls = [e.get('cname') for _, _, _, e in f.walk() if e.get('k') == 'call']
            n += 1
            rep.fn(f)
            rep.check('findMemberImpl' in calls and 'InlinedMemcmpEq' not in calls, 'E9.dispatch-lookup', f.qn, 'forwards to the StringView lookup', f.loc,
                      'the dynamic-dispatch build must not call the AVX2-only comparison directly', facts4.config)
    rep.require(n >= 1, 'C14.d: findMemberImpl(ptr, len) not found in the dynamic-dispatch build')


SIGNED_CMP = ('_mm256_cmpgt_epi8', '_mm_cmpgt_epi8', '_mm_cmplt_epi8', '_mm256_cmpgt_epi16', '_mm_cmpgt_epi16', '_mm_cmplt_epi16')


def clause_e(facts, rep, namespaces=('::avx2::', '::sse::'), min_returns=6):
    """The three-way comparison orders keys as memcmp does: by the first differing byte, as UNSIGNED bytes, left
    minus right.  For every return of the three-way family (InlinedMemcmp and its short-length helper):
    0, a forwarded memcmp / family call with the operands in order, or  L[i] - R[i]  /  (L[i] < R[i]) ? neg : pos
    of two unsigned-byte loads at the same index, L derived from the first pointer parameter and R from the second.
    A sign obtained from a signed vector compare (pcmpgtb) orders bytes >= 0x80 below ASCII, which makes the
    lookup-map comparator inconsistent between its short and long paths."""
    n = 0
    for f in facts.functions:
        if f.short not in ('InlinedMemcmp', 'cmp_lt_32') or not any(ns in f.qn + '::' or ns in f.qn for ns in namespaces):
            continue
        if f.d.get('ret_t') not in ('int',):
            continue
        rep.fn(f)
        defs = {}
        for bid, i, s_ in f.stmts():
            st = strip(s_)
            if st is None:
                continue
            if st.get('k') == 'decl':
                for vd in st['vars']:
                    if vd.get('init') is not None:
                        defs.setdefault(vd['id'], []).append(vd['init'])
            if st.get('k') == 'bin' and st['op'] == '=' and strip(st['l']) is not None and strip(st['l']).get('k') == 'ref':
                defs.setdefault(strip(st['l'])['id'], []).append(st['r'])
        pidx = {p_['id']: k for k, p_ in enumerate(f.params)}

        def base_param(e, depth=0):
            """index of the pointer parameter a pointer expression is derived from"""
            e = strip(e)
            while e is not None and depth < 12:
                depth += 1
                k = e.get('k')
                if k in ('cast', 'paren'):
                    e = strip(e['e'])
                elif k == 'bin' and e['op'] in ('+', '-'):
                    e = strip(e['l'])
                elif k == 'ref':
                    if e['id'] in pidx:
                        return pidx[e['id']]
                    ds = defs.get(e['id'])
                    if ds and len(ds) == 1:
                        e = strip(ds[0])
                    else:
                        return None
                else:
                    return None
            return None

        def byte_load(e):
            """(param index, index text) for an unsigned byte load L[i] / *(L+i)"""
            e0 = e
            e = strip(e)
            if e is None:
                return None
            if e.get('k') == 'sub':
                t = (e.get('t') or '')
                if t.replace('const ', '') not in ('uint8_t', 'unsigned char'):
                    return ('signed', t)
                return (base_param(e['base']), show(e.get('idx') or e.get('index') or {}))
            return None

        def provenance_calls(e, depth=0, seen=None):
            seen = seen if seen is not None else set()
            out = set()
            for y in walk(e):
                if y.get('k') == 'call' and y.get('cname'):
                    out.add(y['cname'])
                    g = facts.by_id.get(y.get('cid'))
                    if g is not None and g.id != f.id and depth < 3 and g.id not in seen:
                        # a helper of the library: everything its body calls contributes to the result
                        seen.add(g.id)
                        for _, _, _, z in g.walk():
                            if z.get('k') == 'call' and z.get('cname'):
                                out.add(z['cname'])
                if y.get('k') == 'ref' and y.get('id') in defs and y['id'] not in seen and depth < 6:
                    seen.add(y['id'])
                    for d in defs[y['id']]:
                        out |= provenance_calls(d, depth + 1, seen)
            return out
        for bid, i, s_ in f.stmts():
            st = strip(s_)
            if st is None or st.get('k') != 'ret' or M_unreachable(f, bid):
                continue
            v = strip(st.get('e'))
            n += 1
            if cval(st.get('e')) == 0:
                rep.ok('E5.unsigned-order', '%s: return 0 (equal)' % f.qn, locline(st['loc']))
                continue
            ok, why = None, ''
            if v is not None and v.get('k') == 'call' and v.get('cname') in ('memcmp', '__builtin_memcmp', 'cmp_lt_32', 'InlinedMemcmp'):
                a = v.get('args', [])
                ok = len(a) >= 2 and base_param(a[0]) == 0 and base_param(a[1]) == 1
                why = 'operands forwarded in order (first, second)'
            elif v is not None and v.get('k') == 'bin' and v['op'] == '-':
                l, r = byte_load(v['l']), byte_load(v['r'])
                if l and r and l[0] != 'signed' and r[0] != 'signed':
                    ok = (l[0], r[0]) == (0, 1) and l[1] == r[1]
                    why = 'difference of unsigned bytes, left minus right at the same index (got operands %s, %s)' % (l, r)
                elif l and r:
                    ok = False
                    why = 'byte loads through a signed element type %s' % ([x for x in (l, r) if x[0] == 'signed'],)
            elif v is not None and v.get('k') == 'cond':
                c = strip_expect(v['c'])
                if c is not None and c.get('k') == 'bin' and c['op'] in ('<', '>'):
                    l, r = byte_load(c['l']), byte_load(c['r'])
                    tv, ev_ = cval(v['a']), cval(v['b'])
                    if l and r and l[0] != 'signed' and r[0] != 'signed' and tv is not None and ev_ is not None:
                        less_when_true = (c['op'] == '<') == ((l[0], r[0]) == (0, 1))
                        ok = l[1] == r[1] and {l[0], r[0]} == {0, 1} and ((tv < 0 < ev_) if less_when_true else (ev_ < 0 < tv))
                        why = 'sign chosen by an unsigned byte comparison'
            if ok is None:
                prov = provenance_calls(st.get('e'))
                if prov & set(SIGNED_CMP):
                    ok = False
                    why = 'the sign is derived from a SIGNED vector byte compare (%s): bytes >= 0x80 would order below ASCII, unlike memcmp' % sorted(prov & set(SIGNED_CMP))
                else:
                    raise AnalysisBroken('C14.e: return expression %s of %s has an unrecognised shape' % (show(st), f.qn))
            rep.check(ok, 'E5.unsigned-order', f.qn, show(st)[:80], locline(st['loc']), why, facts.config)
    rep.require(n >= min_returns, 'C14.e: only %d returns of the three-way compare family found' % n)


def M_unreachable(f, bid):
    return False


def run(rep, tier):
    facts = get_facts('K1')
    rep.unit(facts)
    clause_a(facts, rep, False)
    clause_b(facts, rep, tier)
    n = clause_c(facts, rep)
    clause_eq_length(facts, rep)
    clause_mask_arith(facts, rep)
    clause_e(facts, rep, ('::avx2::',))
    rep.require(n >= 2, 'C14.c: lookup / comparator sites found: %d' % n)
    facts2 = get_facts('K2')
    rep.unit(facts2)
    clause_a(facts2, rep, True)
    facts4 = get_facts('K4')
    rep.unit(facts4)
    clause_d(facts4, rep)
    facts3 = get_facts('K3')
    rep.unit(facts3)
    clause_e(facts3, rep, ('::sse::',), min_returns=1)
    if tier == 'thorough':
        clause_b(facts2, rep, tier)
    rep.trust('clang 14 front end', 'Intel semantics of loadu / cmpeq / movemask / and / BZHI (keeps the low n bits)', 'page size 4096')
    rep.assumptions += [
        'decides the page guard, bounds and byte coverage of InlinedMemcmpEq / InlinedMemcmp on the all-equal path for every length up to the stated bound, the length guards of the lookup and the comparator shape',
        'the three-way result is taken from unsigned bytes in left-minus-right order at every return (shape rule); mismatch localisation (which index) is value level and not decided',
    ]
