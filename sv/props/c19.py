"""C19 — ParseSchema updates exactly the declared members: the *mode and stack
discipline* of SchemaHandler, not the merge semantics.

SchemaHandler is a mode machine: "update" (events act on nodes of the existing
document; Key() looks members up in parent_node_) and "build" (a new value is
assembled on the node stack and later replaces an existing node).  Contexts are
saved on two parallel stacks (parent_st_, found_count_st_).  Decided here, for
both node types:

(a) E9.stack-effects   Start*/End* siblings agree on their stack effects: the
    set of (pushes to parent_st_, pushes to found_count_st_) over the successful
    paths of StartObject equals the set of (pops, pops) over the paths of
    EndObject, same for StartArray/EndArray.  An End path that pops a
    combination no Start path pushes (or vice versa) lets the stacks drift, so
    a later End restores the wrong parent or the wrong found counter.
(b) E2.restore-on-pop  every pop_back() of a context stack is preceded on all
    paths by a read of its back() since the previous pop (nothing saved is
    dropped unread); a pop of found_count_st_ is preceded by
    `found_node_count_ = found_count_st_.back()`.
(c) E2.build-mode      on every successful path of Start* that pushed a stack
    node (a new value is being built), parent_node_ is null at exit - assigned
    nullptr on the path, or not assigned at all (nested build: already null by
    induction).  Otherwise Key() would look the keys of the *new* value up in an
    existing object.  A path that pushed nothing may alternatively leave
    parent_node_ on a node it has tested to be a non-empty object (update mode).
(d) E2.key-lookup      Key(): the lookup happens only under "parent_node_ is a
    non-null object"; `return true` from the lookup arm is dominated by
    "member found" and by `cur_node_ = &member value`; every `return false`
    has set cur_node_ = nullptr (the parser then skips the value: C02 E1).

Each is a necessary condition of the property (breaking it changes the result
of some (document, text) pair - see DESIGN.md 9.4 for the two pairs found on the
pinned tree).  The recursive-merge semantics itself is not decided.
"""
from ..core import get_facts, strip, strip_expect, cval, show, walk, locline, is_this_member, AnalysisBroken
from ..e2_dom import Must
from . import c02 as _c02

HANDLER = 'sonic_json::SchemaHandler'
STACKS = ('parent_st_', 'found_count_st_')


def _stack_call(e):
    """(stack member name, method) if e is a call of a method on one of the context stacks"""
    if e.get('k') != 'call':
        return None
    o = strip(e.get('obj')) if e.get('obj') is not None else None
    if o is None or o.get('k') != 'member' or o.get('name') not in STACKS:
        return None
    return (o['name'], e.get('cname'))


def _paths(f, limit=4000):
    """all acyclic entry->return paths as lists of (block id, succ index or None)"""
    out = []

    def rec(b, path, seen):
        if len(out) > limit:
            raise AnalysisBroken('C19: too many paths in %s' % f.qn)
        B = f.blocks[b]
        path = path + [b]
        succs = [(k, s) for k, s in enumerate(B['succs']) if s is not None]
        if b == f.exit or not succs:
            out.append(path)
            return
        for k, s in succs:
            if s in seen:
                continue
            rec(s, path, seen | {s})
    rec(f.entry, [], {f.entry})
    return out


_depth = [0]


def _path_effect(f, path):
    """(d_parent, d_found, returns) along the path; returns = 'true' / 'false' / 'other'"""
    eff = {s: 0 for s in STACKS}
    ret = None
    for b in path:
        B = f.blocks[b]
        items = list(B['stmts'])
        t = B.get('term')
        if t and t.get('cond') is not None:
            items.append(t['cond'])
        for s in items:
            s_ = strip(s) if isinstance(s, dict) else s
            if s_ is None:
                continue
            # only count a call once: statements of a block list sub-expressions separately when setAllAlwaysAdd is on;
            # the extractor emits top-level statements only, so walking each is exact
            for e in walk(s_):
                sc = _stack_call(e)
                if sc is None:
                    # a helper of the handler called on the same object: its own (uniform) effect counts here
                    if e.get('k') == 'call' and e.get('cid') is not None and getattr(f, 'facts', None) is not None and _depth[0] < 3:
                        g = f.facts.by_id.get(e['cid'])
                        ob = strip(e.get('obj')) if e.get('obj') is not None else None
                        if g is not None and g.cls_qn == f.cls_qn and g.id != f.id and g.blocks and (ob is None or ob.get('k') == 'this') and \
                                g.short not in ('StartObject', 'EndObject', 'StartArray', 'EndArray', 'Key'):
                            _depth[0] += 1
                            try:
                                effs = set(_path_effect(g, p_)[:2] for p_ in _paths(g))
                            finally:
                                _depth[0] -= 1
                            if len(effs) == 1:
                                d1, d2 = effs.pop()
                                eff['parent_st_'] += d1
                                eff['found_count_st_'] += d2
                            elif len(effs) > 1 and any(x != (0, 0) for x in effs):
                                raise AnalysisBroken('C19.a: helper %s has paths with different context-stack effects %s' % (g.short, sorted(effs)))
                    continue
                st, m = sc
                if m in ('emplace_back', 'push_back'):
                    eff[st] += 1
                elif m == 'pop_back':
                    eff[st] -= 1
            if s_.get('k') == 'ret':
                c = cval(s_.get('e'))
                ret = 'true' if c == 1 else 'false' if c == 0 else 'other'
    return eff['parent_st_'], eff['found_count_st_'], ret


def clause_a(facts, rep, fs):
    n = 0
    for kind in ('Object', 'Array'):
        st, en = fs.get('Start' + kind), fs.get('End' + kind)
        rep.require(st is not None and en is not None, 'C19.a: Start%s/End%s not found' % (kind, kind))
        if st is None or en is None:
            continue
        sp = {}
        for p in _paths(st):
            dp, df, r = _path_effect(st, p)
            if r == 'false':
                continue          # failed push: the parse stops (C02)
            sp.setdefault((dp, df), p)
        ep = {}
        for p in _paths(en):
            dp, df, r = _path_effect(en, p)
            if r == 'false':
                continue
            ep.setdefault((-dp, -df), p)
        rep.require(len(sp) >= 2 and len(ep) >= 2, 'C19.a: fewer than two distinct stack effects in Start%s/End%s' % (kind, kind))
        for eff in sorted(set(sp) | set(ep)):
            n += 1
            ok = eff in sp and eff in ep
            if eff in ep and eff not in sp:
                who, loc, det = en, en.loc, 'End%s has a path that pops (parent_st_, found_count_st_) = %s but no path of Start%s pushes that combination (Start pushes: %s)' % (kind, eff, kind, sorted(sp))
            elif eff in sp and eff not in ep:
                who, loc, det = st, st.loc, 'Start%s has a path that pushes (parent_st_, found_count_st_) = %s but no path of End%s pops that combination (End pops: %s)' % (kind, eff, kind, sorted(ep))
            else:
                who, loc, det = en, en.loc, ''
            rep.check(ok, 'E9.stack-effects', who.qn, '%s: context-stack effect %s is pushed by Start%s and popped by End%s' % (kind, eff, kind, kind), loc, det, facts.config)
    return n


def clause_b(facts, rep, fs):
    n = 0
    for name in ('EndObject', 'EndArray'):
        f = fs.get(name)
        if f is None:
            continue

        def gen_stmt(s):
            out = []
            for e in walk(s):
                sc = _stack_call(e)
                if sc and sc[1] == 'back':
                    out.append('read:' + sc[0])
            s_ = strip(s)
            if s_ is not None and s_.get('k') == 'bin' and s_['op'] == '=' and is_this_member(strip(s_['l']), 'found_node_count_'):
                if any(_stack_call(e) == ('found_count_st_', 'back') for e in walk(s_['r'])):
                    out.append('restored')
            return out

        def kill_after(s):
            return []
        M = Must(f, gen_stmt=gen_stmt)
        # obligations are evaluated *before* the pop; tokens are consumed by it (handled by re-walking in order)
        for bid, B in f.blocks.items():
            st = M.IN.get(bid)
            if st is None:
                continue
            st = set(st)
            for i, s in enumerate(B['stmts']):
                s_ = strip(s)
                if s_ is None:
                    continue
                for e in walk(s_):
                    sc = _stack_call(e)
                    if sc and sc[1] == 'pop_back':
                        n += 1
                        need = {'read:' + sc[0]} | ({'restored'} if sc[0] == 'found_count_st_' else set())
                        rep.check(need <= st, 'E2.restore-on-pop', f.qn, show(s_), locline(e['loc']),
                                  'the saved context must be read (%s) before it is popped; have %s' % (sorted(need), sorted(st)), facts.config)
                        st -= need
                st |= set(gen_stmt(s))
    rep.require(n >= 4, 'C19.b: only %d context pops found' % n)


def clause_c(facts, rep, fs):
    """path-wise (Start* are loop-free): exact per path, no join imprecision"""
    n = 0
    for name in ('StartObject', 'StartArray'):
        f = fs.get(name)
        if f is None:
            continue

        _Matoms = Must(f)       # for its view of edges: bool locals that name a condition, conjunctions (sv/e2_dom.py)

        def assigns_parent(s_):
            return s_ is not None and s_.get('k') == 'bin' and s_['op'] == '=' and is_this_member(strip(s_['l']), 'parent_node_')

        def on_parent(c):
            o = strip(c.get('obj')) if c.get('obj') is not None else None
            return o is not None and o.get('k') == 'member' and o.get('name') == 'parent_node_'

        def edge_facts(cond, sense):
            c = strip_expect(cond)
            neg = False
            while c is not None and c.get('k') == 'un' and c['op'] == '!':
                neg = not neg
                c = strip_expect(c['e'])
            out = set()
            if c is None:
                return out
            truth = (sense != neg)          # truth value of the un-negated atom on this edge
            if c.get('k') == 'call' and c.get('cname') == 'IsObject' and on_parent(c) and truth:
                out.add('isobj')
            if c.get('k') == 'call' and c.get('cid') in _c02.push_fn_ids(facts, HANDLER) and truth:
                out.add('pushed')
            if c.get('k') == 'bin' and c['op'] in ('==', '!=', '>') and cval(c['r']) == 0:
                l = strip(c['l'])
                if l is not None and l.get('k') == 'call' and l.get('cname') == 'Size' and on_parent(l):
                    if truth == (c['op'] in ('!=', '>')):
                        out.add('nonempty')
            return out
        exits = {}
        for path in _paths(f):
            st = {'untouched'}
            ret = None
            for k, b in enumerate(path):
                B = f.blocks[b]
                for s in B['stmts']:
                    s_ = strip(s)
                    if assigns_parent(s_):
                        st -= {'untouched', 'null', 'isobj', 'nonempty'}
                        if cval(s_['r']) == 0:
                            st.add('null')
                    if s_ is not None and s_.get('k') == 'ret':
                        ret = (b, s_)
                t = B.get('term')
                if t and t.get('cond') is not None and len(B['succs']) == 2 and k + 1 < len(path):
                    nxt = path[k + 1]
                    if B['succs'][0] == nxt and B['succs'][1] != nxt:
                        for c_at, s_at in _Matoms._atoms(t['cond'], True, 0, b):
                            st |= edge_facts(c_at, s_at)
                    elif B['succs'][1] == nxt and B['succs'][0] != nxt:
                        for c_at, s_at in _Matoms._atoms(t['cond'], False, 0, b):
                            st |= edge_facts(c_at, s_at)
            if ret is None or cval(ret[1].get('e')) != 1:
                continue
            null_ok = 'null' in st or 'untouched' in st
            if 'pushed' in st:
                ok = null_ok
                why = 'a stack node was pushed (a new value is being built): parent_node_ must be null at exit, otherwise Key() looks the new value\'s keys up in an existing object'
            else:
                ok = null_ok or ('isobj' in st and 'nonempty' in st)
                why = 'no stack node was pushed on this path: parent_node_ must be null/unchanged or a node tested to be a non-empty object'
            key = (id(ret[1]), ok, frozenset(st))
            exits.setdefault(key, (ret[1], ok, sorted(st), why))
        for (_, _, _), (rs, ok, st, why) in sorted(exits.items(), key=lambda kv: (kv[1][0]['loc'], kv[1][2])):
            n += 1
            rep.check(ok, 'E2.build-mode', f.qn, 'path with facts %s reaching %s' % (st, show(rs)), locline(rs['loc']), why, facts.config)
    rep.require(n >= 4, 'C19.c: only %d successful Start* paths found' % n)


def clause_d(facts, rep, fs):
    f = fs.get('Key')
    rep.require(f is not None, 'C19.d: SchemaHandler::Key not found')
    if f is None:
        return

    def gen_edge(b, cond, sense):
        c = strip_expect(cond)
        neg = False
        while c is not None and c.get('k') == 'un' and c['op'] == '!':
            neg = not neg
            c = strip_expect(c['e'])
        if c is None:
            return []
        if c.get('k') == 'member' and c.get('name') == 'parent_node_' and sense != neg:
            return ['parent']
        if c.get('k') == 'call' and c.get('cname') == 'IsObject' and sense != neg:
            return ['isobj']
        if c.get('k') == 'bin' and c['op'] in ('!=', '==') and any(x.get('k') == 'call' and x.get('cname') == 'MemberEnd' for x in walk(c)):
            found_when_true = c['op'] == '!='
            if (sense != neg) == found_when_true:
                return ['found']
        return []

    def gen_stmt(s):
        s_ = strip(s)
        if s_ is not None and s_.get('k') == 'bin' and s_['op'] == '=' and is_this_member(strip(s_['l']), 'cur_node_'):
            if cval(s_['r']) == 0:
                return ['cur-null']
            if any(x.get('k') == 'member' and x.get('name') == 'value' for x in walk(s_['r'])):
                return ['cur-member']
        return []

    def kill_stmt(s):
        s_ = strip(s)
        if s_ is not None and s_.get('k') == 'bin' and s_['op'] == '=' and is_this_member(strip(s_['l']), 'cur_node_'):
            return ['cur-null', 'cur-member']
        return []
    M = Must(f, gen_edge=gen_edge, gen_stmt=gen_stmt, kill_stmt=kill_stmt)
    n = 0
    for bid, i, s, e in f.walk():
        if e.get('k') == 'call' and e.get('cname') == 'FindMember':
            st = M.at(bid, i)
            if st is None:
                continue
            n += 1
            rep.check('parent' in st and 'isobj' in st, 'E2.key-lookup', f.qn, show(e)[:70], locline(e['loc']),
                      'members are looked up only in a non-null existing object', facts.config)
    for bid, i, s in f.stmts():
        s_ = strip(s)
        if s_ is None or s_.get('k') != 'ret':
            continue
        st = M.at(bid, i)
        if st is None:
            continue
        c = cval(s_.get('e'))
        if c == 1:
            n += 1
            rep.check('found' in st and 'cur-member' in st, 'E2.key-lookup', f.qn, 'return true', locline(s_['loc']),
                      'a key is accepted in update mode only when the member was found and cur_node_ points at its value', facts.config)
        elif c == 0:
            n += 1
            rep.check('cur-null' in st, 'E2.key-lookup', f.qn, 'return false', locline(s_['loc']),
                      'an undeclared key leaves cur_node_ null (its value is skipped by the parser)', facts.config)
        else:
            n += 1
            rep.check('cur-null' in st, 'E2.key-lookup', f.qn, show(s_), locline(s_['loc']),
                      'in build mode the key is pushed with cur_node_ null', facts.config)
    rep.require(n >= 5, 'C19.d: only %d obligations in Key' % n)


def clause_event_kind(facts, rep, classes=('sonic_json::SchemaHandler', 'sonic_json::SAXHandler')):
    """'taking the text's value whole': a scalar event hands its value on in its own kind.  In Bool / Uint / Int / Double
    of the SAX handlers every occurrence of the value parameter inside a call or constructor argument reaches that
    argument through no converting cast (only lvalue-to-rvalue / no-op): the setter or node constructor chosen by
    overload resolution is then the one of the event's own type.  (uint64 -> int64 on the way stores 2^64-1 as -1.)"""
    OK_CASTS = ('LValueToRValue', 'NoOp', 'ConstructorConversion', 'UserDefinedConversion')
    n = 0
    seen = set()
    for f in facts.functions:
        if f.cls_qn not in classes or f.short not in ('Bool', 'Uint', 'Int', 'Double') or len(f.params) != 1:
            continue
        key = (f.cls_qn, f.short, 'SAlloc' in f.name)
        if key in seen:
            continue
        seen.add(key)
        rep.fn(f)
        pid = f.params[0]['id']
        pt = f.params[0]['t'].replace('const ', '').strip()
        uses = []

        def visit(e, chain):
            if not isinstance(e, dict):
                return
            if e.get('k') == 'ref' and e.get('id') == pid:
                uses.append(list(chain))
                return
            for key_ in ('e', 'l', 'r', 'base', 'idx', 'c', 'a', 'b', 'obj', 'init', 'place'):
                if isinstance(e.get(key_), dict):
                    visit(e[key_], chain + [e])
            for a in e.get('args', []) or []:
                visit(a, chain + [('arg', e)])
            for v in e.get('vars', []) or []:
                if isinstance(v.get('init'), dict):
                    visit(v['init'], chain + [e])
        for bid, i, s_ in f.stmts():
            visit(s_, [])
        sinks = 0
        bad = None
        for chain in uses:
            # casts between the reference and the nearest enclosing call / constructor argument
            conv = []
            sink = None
            for node in reversed(chain):
                if isinstance(node, tuple):
                    sink = node[1]
                    break
                if node.get('k') == 'cast':
                    if node.get('ck') not in OK_CASTS or (node.get('explicit') and (node.get('t') or '').replace('const ', '').strip() != pt):
                        conv.append(node)
                else:
                    conv.append(node)     # an operator applied to the value before it is stored
            if sink is None:
                continue
            sinks += 1
            if conv and bad is None:
                bad = 'the %s value reaches %s through %s' % (pt, show(sink)[:70], '; '.join('%s to %s' % (c.get('ck') or c.get('k'), c.get('t')) for c in conv))
        n += 1
        rep.check(bad is None and sinks >= 1, 'E9.event-kind', f.qn, '%s(%s): %d uses as a setter / constructor argument, none converted' % (f.short, pt, sinks), f.loc,
                  bad or ('the value parameter is never stored' if sinks == 0 else ''), facts.config)
    rep.require(n >= 8, 'event-kind: %d scalar events found in %s (>= 8 expected)' % (n, classes))


def clause_model(facts, rep, tier):
    """ParseSchema against the recursive-merge specification by bounded exploration (sv/schema_model.py): the
    SchemaHandler event methods are interpreted from their CFGs, driven as Parser::parseImpl drives a handler with
    check_key_return, on the node / block / ledger model of sv/dom_model.py, for every (existing document, text) pair
    of a universe of ~100 (thorough: 165) trees - all leaf kinds, arrays and objects of <= 2 members in both key
    orders, containers of representative containers - and for two texts applied one after the other.  The document
    afterwards must be merge(existing, text); nothing may be read or written outside a block, released twice or
    leaked."""
    from .. import schema_model as sm
    from ..schema_model import T, Schema, merge, teq, tstr
    from ..dom_model import Machine
    from ..minterp import Unsupported, UndefinedBehaviour
    import itertools
    tags = {}
    for en in facts.enums:
        if en.get('qn', '').endswith('TypeFlag'):
            for c in en.get('values', []):
                tags[c['name']] = int(c['v'])
    nfns, hfns = {}, {}
    for f in facts.functions:
        if f.name.startswith('sonic_json::DNode<sonic_json::SimpleAllocator>') or f.name.startswith('sonic_json::DNode<SAlloc>'):
            if f.short == 'findMemberImpl' and f.params and 'StringView' not in f.params[0]['t'] and 'basic_string_view' not in f.params[0]['t']:
                continue
            nfns.setdefault(f.short, f)
        if f.cls_qn == HANDLER and ('SAlloc' in f.name or 'SimpleAllocator' in f.name):
            hfns.setdefault(f.short, f)
    need = ('StartObject', 'EndObject', 'StartArray', 'EndArray', 'Key', 'String', 'Null', 'Bool', 'Uint', 'Int', 'Double')      # the SAX interface; private helpers are interpreted under whatever name they have
    rep.require(all(n in hfns for n in need) and 'destroy' in nfns and 'findMemberImpl' in nfns and 'kObject' in tags,
                'C19: SchemaHandler / DNode functions of the freeing-allocator instantiation not all found')
    for n_ in need:
        rep.fn(hfns[n_])
    S = Schema(facts, hfns, nfns, tags)
    U = lambda v: T('uint', v)
    St = lambda v: T('str', v)
    O = lambda *kv: T('obj', None, list(kv))
    A = lambda *x: T('arr', None, list(x))
    leaves = [U(1), St('s'), T('null'), T('true'), T('sint', -2), T('real', 1.5), U((1 << 64) - 1)]
    small = leaves[:3]

    def objs(vals, keys=('a', 'b')):
        out = [O()]
        for v in vals:
            out.append(O((keys[0], v)))
        for v, w in itertools.product(vals, repeat=2):
            out.append(O((keys[0], v), (keys[1], w)))
            out.append(O((keys[1], w), (keys[0], v)))
        return out

    def arrs(vals):
        out = [A()]
        for v in vals:
            out.append(A(v))
        for v, w in itertools.product(vals, repeat=2):
            out.append(A(v, w))
        return out
    l1 = objs(small) + arrs(small)
    reps = [O(), O(('a', U(1))), O(('a', U(1)), ('b', St('s'))), O(('b', U(2)), ('a', U(1))), A(U(1)), A(), U(1)]
    l2 = objs(reps) + arrs(reps[:4])
    three = [O(('a', U(1)), ('b', O(('x', U(1)), ('y', U(2)))), ('c', A(U(3)))), O(('c', St('z')), ('a', O(('q', U(0)))), ('zz', U(9))),
             O(('b', O(('y', A(U(7))), ('w', U(1)))), ('c', O(('k', T('null'))))), O(('idx', U(0)), ('id', U(0))), O(('id', U(5)), ('idx', U(6))),
             # a nested object whose members arrive in another order and one of which is replaced by a new object, then a
             # key of the enclosing object; an object replaced by an array of objects; an array of objects into an object
             O(('x', O(('p', U(0)), ('q', U(0)), ('r', U(0)))), ('y', U(0))), O(('x', O(('q', U(5)), ('r', U(6)), ('p', O(('zz', U(1)))))), ('y', U(7))),
             O(('a', O(('b', U(1))))), O(('a', A(O(('b', U(2)))))), O(('a', U(0))), A(O(('a', U(1)))),
             O(('x', O(('p', A(O(('p', U(1))), U(2))), ('q', O(('zz', O(('p', U(3)))))))), ('y', A(A(O(('y', U(4))))))) ]
    # existing documents built through the DOM API: members that only borrow their characters (constant strings)
    def Bs(v):
        t_ = St(v)
        t_.borrowed = True
        return t_
    borrowed = [O(('a', Bs('ss')), ('b', U(1))), O(('b', Bs('s'))), Bs('s')]
    univ = leaves + l1 + (l2 if tier == 'thorough' else l2[:50]) + three + borrowed
    bad = None
    n = 0

    def once(e, texts):
        M = Machine(facts, nfns, tags)
        root = S.build(M, e)
        want = e
        for t in texts:
            ok = S.parse_into(M, root, t)
            want = merge(want, t)
            if not ok:
                return 'the handler refused an event'
            got = S.read(root)
            if not teq(got, want):
                return 'the document is %s, the specification gives %s' % (tstr(got), tstr(want))
        M.call('destroy', root)
        if M.ledger.live:
            return 'after destroying the document: still allocated (leaked): %s' % sorted(set(M.ledger.live.values()))
        return None
    try:
        for e in univ:
            for t in univ:
                if sm.has_ambiguity(e, t):
                    continue
                n += 1
                try:
                    r = once(e, [t])
                except UndefinedBehaviour as ux:
                    r = 'undefined behaviour: %s' % ux
                if r:
                    bad = 'document %s, text %s: %s' % (tstr(e), tstr(t), r)
                    break
            if bad:
                break
        if bad is None:
            hs = (three[:9] + l1[:4]) if tier == 'quick' else (three + l1 + l2[:20])
            ts = (three[:10] + l1[:8] + leaves[:2]) if tier == 'quick' else univ[:70]
            for e in hs:
                for t1 in ts:
                    for t2 in ts:
                        if sm.has_ambiguity(e, t1) or sm.has_ambiguity(merge(e, t1), t2):
                            continue
                        n += 1
                        try:
                            r = once(e, [t1, t2])
                        except UndefinedBehaviour as ux:
                            r = 'undefined behaviour: %s' % ux
                        if r:
                            bad = 'document %s, texts %s then %s: %s' % (tstr(e), tstr(t1), tstr(t2), r)
                            break
                    if bad:
                        break
                if bad:
                    break
    except Unsupported as ex:
        raise AnalysisBroken('C19: the SchemaHandler model cannot interpret the handler: %s' % ex)
    rep.extra['schema_pairs_explored'] = n
    rep.check(bad is None, 'E6.schema-merge', HANDLER, 'document after ParseSchema == merge(existing, text) on %d (document, text[, text]) cases' % n,
              hfns['Key'].loc, bad or '', facts.config)


def run(rep, tier):
    configs = ['K1'] if tier == 'quick' else ['K1', 'K3', 'K7']
    for cfg in configs:
        facts = get_facts(cfg)
        rep.unit(facts)
        insts = {}
        for f in facts.functions:
            if f.cls_qn == HANDLER:
                key = 'SAlloc' if 'SAlloc' in f.name else 'pool'
                insts.setdefault(key, {})[f.short] = f
        rep.require(len(insts) >= 2, 'C19: SchemaHandler instantiations found: %s' % sorted(insts))
        for key, fs in sorted(insts.items()):
            for f in fs.values():
                if f.short in ('StartObject', 'StartArray', 'EndObject', 'EndArray', 'Key'):
                    rep.fn(f)
            clause_a(facts, rep, fs)
            clause_b(facts, rep, fs)
            clause_c(facts, rep, fs)
            clause_d(facts, rep, fs)
        # "never corrupts memory or the document ... repeated application": new containers built by ParseSchema keep
        # views into the schema text buffer, so that buffer must outlive them (shared with C13 clause g)
        clause_event_kind(facts, rep)
        # 'replaces the value of each declared key the text provides' on ANY valid text: the handler's node stack can hold the
        # most nodes a valid text of that length can have, so no valid text is refused (shared with C02)
        _c02.clause_setup_bound(facts, rep, classes=(HANDLER,))
        # declared keys are matched by their whole name: any byte comparison of key data is dominated by a length equality (shared with C14)
        from . import c14 as _c14
        _c14.clause_eq_length(facts, rep)
        _c14.clause_c(facts, rep)
        from . import c13
        c13.clause_g(facts, rep)
        c13.clause_c(facts, rep)     # a replaced document node is destroy()ed before - not after - its header is rewritten
    try:
        clause_model(get_facts('K1'), rep, tier)
    except AnalysisBroken as ex:
        rep.broken.append(str(ex))
    # the shape rules on the handler are decided together with the exploration that interprets the same event methods
    # (the rules themselves are NOT paired: the defects they exist for need three levels of in-place objects with
    # particular hit counts, an empty object that still owns storage, ... - outside the exploration's universe; only
    # their instance floors are)
    for pre_ in ('C19.a:', 'C19.b:', 'C19.c:', 'C19.d:'):
        rep.corroborate_floor(pre_, 'E6.schema-merge')
    rep.trust('clang 14 front end and CFG builder', 'std::vector emplace_back/push_back add one element, pop_back removes one, back() reads the last')
    rep.assumptions += [
        'decides the mode and context-stack discipline of SchemaHandler (Start/End stack effects agree, saved contexts are restored before being popped, no existing object is consulted while a new value is built, Key accepts exactly found members)',
        'does NOT decide the recursive merge semantics (which members end up with which values) - that is a model-level statement over (document, text) pairs',
    ]
