"""C13 — Every allocation is released exactly once; copies are independent:
clauses (a) shallow copies do not compile (witnesses); the deep copy copies owned
strings, (b) raw bitwise moves neutralise or abandon their source, (c) a node
whose provenance is "existing" is destroy()ed before its header/payload is
overwritten, (d) destroy() frees exactly what each owning kind owns, (e) owning
raw-pointer fields are assigned only after a release, from a realloc of
themselves, or by a move that nulls the source (DESIGN.md section 5/C13)."""
from ..core import get_facts, strip, strip_expect, cval, show, walk, locline, is_this_member, AnalysisBroken, callee_of, fn_nulls_member, fn_calls
from ..e2_dom import Must
from ..witness import run_group

DN = 'sonic_json::DNode'
GD = 'sonic_json::GenericDocument'
HANDLERS = ('sonic_json::SAXHandler', 'sonic_json::SchemaHandler', 'sonic_json::LazySAXHandler')


def is_s(f):
    c = (f.cls or '') + ' ' + f.name
    return 'SAlloc' in c or ('SimpleAllocator>' in c and 'MemoryPool' not in c)


def clause_a(facts, rep):
    run_group(rep, 'c13_copy.cpp', 'K1', 'E10.copy-witness', 'owning types')
    deep_copy_rule(facts, rep)


def deep_copy_rule(facts, rep):
    # deep copy: the string arm copies unless the source is a constant string and copying was not requested
    n = 0
    for f in facts.functions:
        if f.cls_qn == DN and f.d.get('ctor') and len(f.params) == 3 and 'DNode' in f.params[0]['t']:
            if not is_s(f):
                continue
            calls = [e.get('cname') for _, _, _, e in f.walk() if e.get('k') == 'call']
            n += 1
            rep.fn(f)
            # StringCopy dominated by (type != kStringConst || copyString); pointer share only in the else
            def gen_edge(b, cond, sense):
                from ..core import cond_sense
                c, sense = cond_sense(cond, sense)
                if c is not None and c.get('k') == 'bin' and c['op'] in ('!=', '==') and any(x.get('k') == 'call' and x.get('cname') == 'GetType' for x in walk(c)):
                    en = f.facts.enum_values()
                    if cval(c['r']) == en.get('kStringConst') or cval(c['l']) == en.get('kStringConst'):
                        isconst = (c['op'] == '==') == sense
                        return ['isConst'] if isconst else ['notConst']
                if c is not None and c.get('k') == 'ref' and c.get('name') == 'copyString':
                    return ['copyReq'] if sense else ['noCopyReq']
                return []
            M = Must(f, gen_edge=gen_edge)
            for bid, i, s, e in f.walk():
                if e.get('k') == 'bin' and e['op'] == '=' and strip(e['l']).get('k') == 'member' and strip(e['l']).get('name') == 'p' and \
                        any(x.get('k') == 'call' and x.get('cname') == 'GetStringView' for x in walk(e['r'])):
                    st = M.at(bid, i)
                    if st is None:
                        continue
                    rep.check('isConst' in st and 'noCopyReq' in st, 'E8.deep-copy', f.qn, show(e)[:70], locline(e['loc']),
                              'the copy may share the character data only for a constant string and when copying was not requested', facts.config)
            rep.check('StringCopy' in calls, 'E8.deep-copy', f.qn, 'owned strings are copied with StringCopy', f.loc, '', facts.config)
            # container arms: whatever was copied from the source header, the children pointer of the copy is set
            # explicitly - to a block obtained from the copy's own allocator or to null - before the arm is left
            # (an empty container may still own a children block: inheriting the source's pointer shares it)
            en = f.facts.enum_values()
            arms = {en.get('kObject'): 'object', en.get('kArray'): 'array'}
            fresh = set()
            for bid, i, st_ in f.stmts():
                s_ = strip(st_)
                if s_ is not None and s_.get('k') == 'decl':
                    for vd in s_['vars']:
                        if vd.get('init') is not None and any(x.get('k') == 'call' and x.get('cname') == 'containerMalloc' for x in walk(vd['init'])):
                            fresh.add(vd['id'])

            def own_children(e):
                if e.get('k') != 'call' or e.get('cname') != 'setChildren' or not e.get('args'):
                    return False
                o = strip(e.get('obj')) if e.get('obj') is not None else None
                if o is not None and o.get('k') != 'this':
                    return False
                a = e['args'][0]
                if cval(a) == 0:
                    return True
                a_ = strip(a)
                if a_ is not None and a_.get('k') == 'ref' and a_.get('id') in fresh:
                    return True
                return any(x.get('k') == 'call' and x.get('cname') == 'containerMalloc' for x in walk(a))

            def gen_stmt2(st_):
                return ['children-set'] if any(own_children(e) for e in walk(st_)) else []

            def kill_stmt2(st_):
                # a raw copy of the source header over this node overwrites the pointer again
                for e in walk(st_):
                    if e.get('k') == 'call' and e.get('cname') in ('memcpy', '__builtin_memcpy') and e.get('args') and any(x.get('k') == 'this' for x in walk(e['args'][0])):
                        return ['children-set']
                return []

            def gen_edge2(b, cond, sense):
                if isinstance(sense, tuple) and sense[0] == 'case':
                    try:
                        v = int(sense[1]) if sense[1] is not None else None
                    except (TypeError, ValueError):
                        v = None
                    if v in arms:
                        return ['arm:' + arms[v]]
                return []
            M2 = Must(f, gen_stmt=gen_stmt2, kill_stmt=kill_stmt2, gen_edge=gen_edge2)
            na = 0
            for bid, B in f.blocks.items():
                t = B.get('term')
                if not (t and t.get('cls') == 'BreakStmt'):
                    continue
                st2 = M2.IN.get(bid)
                if st2 is None:
                    continue
                st2 = set(st2)
                for st_ in B['stmts']:
                    st2 -= set(kill_stmt2(st_))
                    st2 |= set(gen_stmt2(st_))
                arm = [x for x in st2 if x.startswith('arm:')]
                if not arm:
                    continue
                na += 1
                rep.check('children-set' in st2, 'E8.deep-copy', f.qn, 'the %s arm sets the copy\'s own children pointer on every path' % arm[0][4:], locline(t['loc']),
                          'a deep copy must not inherit the children pointer of its source (an emptied container can still own a block): setChildren(fresh block | nullptr) before leaving the arm', facts.config)
            rep.require(na >= 2, 'C13.a: container arms of the deep-copy constructor found: %d' % na)
    rep.require(n >= 1, 'C13.a: deep-copy constructor not found')


def clause_b(facts, rep):
    n = 0
    seen = set()
    for f in facts.functions:
        if f.cls_qn == DN and f.short == 'rawAssign':
            if f.loc in seen and not is_s(f):
                continue
            seen.add(f.loc)
            rep.fn(f)
            en = f.facts.enum_values()
            pid = f.params[0]['id']

            def gen_stmt(s):
                for e in walk(s):
                    if e.get('k') == 'call' and e.get('cname') == 'setType' and e.get('obj') is not None and strip(e['obj']).get('id') == pid and cval(e['args'][0]) == en.get('kNull'):
                        return ['neutral']
                return []
            M = Must(f, gen_stmt=gen_stmt)
            ex = M.IN.get(f.exit)
            copies = [e for _, _, _, e in f.walk() if e.get('k') in ('bin', 'call') and (e.get('op') == '=' or e.get('opcall') == '=') and 'data' in show(e)]
            n += 1
            rep.check(ex is not None and 'neutral' in ex and bool(copies), 'E8.raw-move', f.qn, 'bitwise move then source := null on every path', f.loc,
                      'a raw move must leave the source as a null node so that it is not freed twice', facts.config)
    # range moves: Xmemcpy / memmove of nodes followed by abandoning the source range
    for f in facts.functions:
        if f.cls_qn in HANDLERS and f.short in ('EndObject', 'EndArray') or (f.cls_qn == DN and f.short in ('eraseImpl', 'eraseMemberImpl')):
            if f.loc in seen and not is_s(f):
                continue
            moves = [(bid, i, e) for bid, i, s, e in f.walk() if e.get('k') == 'call' and e.get('cname') in ('Xmemcpy', 'memmove')]
            if not moves:
                continue
            seen.add(f.loc)
            rep.fn(f)

            def lowers(s):
                for e in walk(s):
                    if e.get('k') == 'bin' and e['op'] in ('=', '-=') and is_this_member(e['l'], 'np_'):
                        return True
                    if e.get('k') == 'call' and e.get('cname') in ('Pop', 'subLength'):
                        return True
                return False
            M = Must(f, entry=['nomove'],
                     gen_stmt=lambda s: ['lowered', 'nomove'] if lowers(s) else [],
                     kill_stmt=lambda s: ['nomove'] if any(e.get('k') == 'call' and e.get('cname') in ('Xmemcpy', 'memmove') for e in walk(s)) and not lowers(s) else [])
            for bid, i, s in f.stmts():
                s_ = strip(s)
                if s_.get('k') == 'ret':
                    st = M.at(bid, i)
                    if st is None:
                        continue
                    n += 1
                    rep.check('lowered' in st or 'nomove' in st, 'E8.raw-move', f.qn, 'after the bitwise range move the source range is abandoned (np_ lowered / Pop / subLength)', locline(s_['loc']),
                              'otherwise the moved nodes stay reachable from the stack or the container and are destroyed twice', facts.config)
            # Pop / subLength count equals the moved count (Lazy handler, erase)
            for bid, i, e in moves:
                cnt = show(e['args'][2])
                for b2, i2, s2, e2 in f.walk():
                    if e2.get('k') == 'call' and e2.get('cname') == 'Pop' and f.cls_qn == 'sonic_json::LazySAXHandler':
                        n += 1
                        rep.check(show(e2['args'][0]) == cnt, 'E8.raw-move', f.qn, 'Pop(%s) matches the moved count %s' % (show(e2['args'][0]), cnt), locline(e2['loc']), '', facts.config)
    rep.require(n >= 8, 'C13.b: raw-move obligations found: %d' % n)


OVERWRITERS = ('setLength', 'setChildren', 'setType')


def clause_c(facts, rep):
    n = 0
    seen = set()
    # (c1) DNode: overwriting *this
    for f in facts.functions:
        if f.cls_qn != DN or not is_s(f):
            continue
        if not (f.short.startswith('set') and f.short.endswith('Impl')) and f.short not in ('CopyFrom', 'clearImpl'):
            continue
        rep.fn(f)
        M = Must(f, gen_stmt=lambda s: ['destroyed'] if any(e.get('k') == 'call' and e.get('cname') == 'destroy' and (e.get('obj') is None or strip(e['obj']).get('k') == 'this')
                                                                for e in walk(s)) else [])
        for bid, i, s, e in f.walk():
            hit = None
            if e.get('k') == 'new' and e.get('placement') and strip(e['placement'][0]).get('k') == 'this':
                hit = 'placement new over *this'
            elif e.get('k') == 'call' and e.get('cname') in OVERWRITERS and (e.get('obj') is None or strip(e['obj']).get('k') == 'this'):
                hit = show(e)[:50]
            elif e.get('k') == 'bin' and e['op'] == '=' and strip(e['l']).get('k') == 'member' and strip(e['l']).get('name') in ('p', 'children') and \
                    any(x.get('k') == 'this' for x in walk(e['l'])):
                hit = show(e)[:50]
            if hit is None:
                continue
            st = M.at(bid, i)
            if st is None:
                continue
            key = (f.short, hit, locline(e['loc']))
            if key in seen:
                continue
            seen.add(key)
            n += 1
            rep.check('destroyed' in st, 'E8.destroy-before-overwrite', f.qn, hit, locline(e['loc']),
                      'an existing node must be destroy()ed before its header or payload is overwritten', facts.config)
    # (c2) handlers: the node whose header is rewritten is a fresh stack slot or was destroyed
    for f in facts.functions:
        if f.cls_qn not in HANDLERS or f.short not in ('EndObject', 'EndArray') or not is_s(f):
            continue
        rep.fn(f)
        # pointer / reference locals that name the container node
        ptrs = {}
        for bid, i, s in f.stmts():
            s_ = strip(s)
            if s_.get('k') == 'decl':
                for v in s_['vars']:
                    if 'DNode' in v.get('t', '') and ('*' in v['t'] or '&' in v['t']):
                        ptrs[v['id']] = v['name']

        def fresh_src(e):
            """expression denotes a slot of the handler's own node stack"""
            for x in walk(e):
                if x.get('k') == 'member' and is_this_member(x, 'st_'):
                    return True
                if x.get('k') == 'call' and x.get('cname') == 'Begin' and x.get('obj') is not None and is_this_member(strip(x['obj']), 'stack_'):
                    return True
            return False

        def existing_src(e):
            for x in walk(e):
                if x.get('k') == 'member' and is_this_member(x) and x['name'] in ('parent_node_', 'cur_node_', 'parent_st_'):
                    return True
            return False

        def gen_stmt(s):
            out = []
            s_ = strip(s)
            if s_.get('k') == 'decl':
                for v in s_['vars']:
                    if v['id'] in ptrs and v.get('init') is not None:
                        ini = v['init']
                        alias = [x for x in walk(ini) if x.get('k') == 'ref' and x.get('id') in ptrs]
                        if fresh_src(ini) and not existing_src(ini):
                            out.append(('safe', v['id']))
                        elif alias:
                            out.append(('alias', v['id'], alias[0]['id']))
            for e in walk(s_):
                if e.get('k') == 'bin' and e['op'] == '=' and strip(e['l']).get('id') in ptrs:
                    if fresh_src(e['r']) and not existing_src(e['r']):
                        out.append(('safe', strip(e['l'])['id']))
                if e.get('k') == 'call' and e.get('cname') == 'destroy' and e.get('obj') is not None:
                    for x in walk(e['obj']):
                        if x.get('k') == 'ref' and x.get('id') in ptrs:
                            out.append(('safe', x['id']))
            return out

        def kill_stmt(s):
            out = []
            for e in walk(strip(s)):
                if e.get('k') == 'bin' and e['op'] == '=' and strip(e['l']).get('id') in ptrs:
                    out.append(('safe', strip(e['l'])['id']))
            return out
        M = Must(f, gen_stmt=gen_stmt, kill_stmt=lambda s: [t for t in kill_stmt(s) if t not in gen_stmt(s)])
        for bid, i, s, e in f.walk():
            if e.get('k') == 'call' and e.get('cname') in ('setLength', 'setChildren') and e.get('obj') is not None:
                ids = [x['id'] for x in walk(e['obj']) if x.get('k') == 'ref' and x.get('id') in ptrs]
                if not ids:
                    continue
                st = M.at(bid, i)
                if st is None:
                    continue
                vid = ids[0]
                # follow one alias level:  NodeType &obj = *obj_ptr
                ok = ('safe', vid) in st or any(t[0] == 'alias' and t[1] == vid and ('safe', t[2]) in st for t in st if len(t) == 3)
                key = (f.qn, show(e)[:40], locline(e['loc']))
                if key in seen:
                    continue
                seen.add(key)
                n += 1
                rep.check(ok, 'E8.destroy-before-overwrite', f.qn, show(e)[:60], locline(e['loc']),
                          'the container header is rewritten: the node must be a slot of the handler\'s own stack or an existing document node that was destroy()ed first',
                          facts.config)
    rep.require(n >= 20, 'C13.c: overwrite sites found: %d' % n)


def clause_d(facts, rep):
    en = facts.enum_values()
    n = 0
    for f in facts.functions:
        if f.cls_qn != DN or f.short != 'destroy' or not is_s(f):
            continue
        rep.fn(f)
        sw = [b for b in f.blocks.values() if b.get('term') and b['term']['cls'] == 'SwitchStmt']
        rep.require(len(sw) == 1, 'C13.d: destroy() kind switch not found')
        if len(sw) != 1:
            continue
        cases = {}
        for sx in sw[0]['succs']:
            if sx is not None and f.blocks[sx].get('case') not in (None, 'default'):
                cases[int(f.blocks[sx]['case'])] = sx
        want = {en['kObject'], en['kArray'], en['kStringFree']}
        n += 1
        rep.check(set(cases) == want, 'E8.destroy-arms', f.qn, 'owning kinds with an arm: %s' % sorted(cases), f.loc,
                  'exactly object, array and kStringFree own allocator memory (kStringCopy / kStringConst do not)', facts.config)

        def arm_calls(start):
            out = []
            seen = set()
            work = [start]
            while work:
                x = work.pop()
                if x in seen:
                    continue
                seen.add(x)
                for s in f.blocks[x]['stmts']:
                    for e in walk(s):
                        if e.get('k') == 'call':
                            out.append(e)
                t = f.blocks[x].get('term')
                if t and t.get('cond') is not None:
                    for e in walk(t['cond']):
                        if e.get('k') == 'call':
                            out.append(e)
                for sx in f.blocks[x]['succs']:
                    if sx is not None and f.blocks[sx].get('case') is None and sx != f.exit:
                        # stop at the block after the switch (has several case predecessors): approximate by not crossing 'break' joins
                        if len(f.preds[sx]) > 3:
                            continue
                        work.append(sx)
            return out
        for kind, need in (('kObject', ('destroy', 'Free', '~MetaNode')), ('kArray', ('destroy', 'Free')), ('kStringFree', ('Free',))):
            if en[kind] not in cases:
                continue
            names = [c.get('cname') for c in arm_calls(cases[en[kind]])]
            n += 1
            rep.check(all(x in names for x in need), 'E8.destroy-arms', f.qn, '%s arm calls %s' % (kind, ', '.join(need)), f.loc, 'calls: %s' % sorted(set(names)), facts.config)
            if kind == 'kObject':
                rep.check(names.count('destroy') >= 2, 'E8.destroy-arms', f.qn, 'object arm destroys both the name and the value of every member', f.loc, '', facts.config)
        frees = [e for _, _, _, e in f.walk() if e.get('k') == 'call' and e.get('cname') == 'Free']
        rep.check(len(frees) == 3, 'E8.destroy-arms', f.qn, 'exactly three Free calls (children of object, children of array, owned string)', f.loc, str(len(frees)), facts.config)
    rep.require(n >= 4, 'C13.d: destroy() obligations: %d' % n)


def clause_e(facts, rep):
    """owning raw-pointer fields"""
    n = 0
    # (e1) document string buffers: the allocating helper is reached only after a release point
    for helper, field in (('allocateStringBuffer', 'str_'), ('allocateSchemaStringBuffer', 'schema_str_')):
        fs = [f for f in facts.functions if f.cls_qn == GD and f.short == helper and is_s(f)]
        rep.require(len(fs) >= 1, 'C13.e: %s not found' % helper)
        for g in fs[:1]:
            rep.fn(g)
            assigns = [e for _, _, _, e in g.walk() if e.get('k') == 'bin' and e['op'] == '=' and is_this_member(e['l'], field)]
            rep.require(len(assigns) >= 1, 'C13.e: %s does not assign %s' % (helper, field))
            # does the helper itself release the old buffer first?
            M = Must(g, gen_stmt=lambda s, field=field: ['freed'] if any(e.get('k') == 'call' and e.get('cname') == 'Free' and any(is_this_member(x, field) for x in walk(e) if x.get('k') == 'member')
                                                                         for e in walk(s)) else [])
            self_release = False
            for bid, i, s, e in g.walk():
                if e in assigns:
                    st = M.at(bid, i)
                    self_release = st is not None and 'freed' in st
            if self_release:
                n += 1
                rep.ok('E8.owning-field', '%s: %s frees the previous buffer itself' % (g.qn, helper), g.loc)
                continue
            # walk up the call chains inside GenericDocument
            chains = []

            def up(fn, chain):
                callers = []
                for h in facts.functions:
                    if h.cls_qn == GD and is_s(h):
                        for bid, i, s, e in h.walk():
                            if e.get('k') == 'call' and e.get('cid') == fn.id:
                                callers.append((h, bid, i, e))
                if not callers:
                    chains.append(chain)
                    return
                for h, bid, i, e in callers:
                    Mh = Must(h, gen_stmt=lambda s: ['released'] if any(x.get('k') == 'call' and x.get('cname') == 'destroyDom' for x in walk(s)) else [])
                    st = Mh.at(bid, i)
                    rel = st is not None and 'released' in st
                    if rel:
                        chains.append(chain + [(h, True)])
                    elif len(chain) < 5:
                        up(h, chain + [(h, False)])
                    else:
                        chains.append(chain + [(h, False)])
            up(g, [])
            for ch in chains:
                n += 1
                ok = any(r for _, r in ch)
                entry = ch[-1][0].short if ch else helper
                rep.check(ok, 'E8.owning-field', g.qn, '%s overwritten on the path from %s' % (field, ' <- '.join(h.short for h, _ in ch) or helper), locline(assigns[0]['loc']),
                          'an owning pointer may be reassigned only after the previous buffer was released (destroyDom) on that path', facts.config)
    # (e2) handler stacks and Stack::buf_: assigned from realloc of themselves, or in a move that nulls the source
    for f in facts.functions:
        own = None
        if f.cls_qn in ('sonic_json::SAXHandler', 'sonic_json::SchemaHandler') and is_s(f):
            own = 'st_'
        elif f.cls_qn == 'sonic_json::internal::Stack':
            own = 'buf_'
        if own is None:
            continue
        for bid, i, s, e in f.walk():
            if e.get('k') == 'bin' and e['op'] == '=' and is_this_member(e['l'], own):
                rhs = e['r']
                c = cval(rhs)
                if c == 0:
                    continue      # nulling
                key = (f.qn, show(e)[:60])
                n += 1
                rep.fn(f)
                realloc_self = any(x.get('k') == 'call' and x.get('cname') == 'realloc' and any(is_this_member(y, own) for y in walk(x['args'][0]) if y.get('k') == 'member') for x in walk(rhs))
                via_tmp = False
                r = strip(rhs)
                if r.get('k') == 'ref' and r.get('dk') == 'local':
                    for b2, i2, s2 in f.stmts():
                        s2_ = strip(s2)
                        if s2_.get('k') == 'decl':
                            for v in s2_['vars']:
                                if v['id'] == r['id'] and v.get('init') is not None and any(x.get('k') == 'call' and x.get('cname') == 'realloc' and any(is_this_member(y, own) for y in walk(x['args'][0]) if y.get('k') == 'member') for x in walk(v['init'])):
                                    via_tmp = True
                from_rhs = any(x.get('k') == 'member' and x.get('name') == own and not is_this_member(x) for x in walk(rhs))
                moved = False
                if from_rhs:
                    # move: the source field is nulled later on every path, and (for assignment) the old buffer was released first
                    pid = [p['id'] for p in f.params]
                    Mv = Must(f, gen_stmt=lambda s, own=own: ['nulled'] if any(x.get('k') == 'bin' and x['op'] == '=' and strip(x['l']).get('k') == 'member' and strip(x['l']).get('name') == own and
                                                                                 not is_this_member(x['l']) and cval(x['r']) == 0 for x in walk(s)) or
                              any(x.get('k') == 'call' and x.get('obj') is not None and (strip(x['obj']) or {}).get('k') != 'this' and fn_nulls_member(callee_of(facts, x), own, 2, facts) for x in walk(s)) else [])
                    ex = Mv.IN.get(f.exit)
                    nulled = ex is not None and 'nulled' in ex
                    released = True
                    if not f.d.get('ctor'):
                        Mr = Must(f, gen_stmt=lambda s: ['rel'] if any(x.get('k') == 'call' and (x.get('cname') == 'free' or fn_calls(callee_of(facts, x), ('free',), 2, facts)) for x in walk(s)) else [])
                        st = Mr.at(bid, i)
                        released = st is not None and 'rel' in st
                    moved = nulled and released
                rep.check(realloc_self or via_tmp or moved, 'E8.owning-field', f.qn, show(e)[:70], locline(e['loc']),
                          'an owning buffer pointer is overwritten only by a realloc of itself, or taken from a source that is nulled (after releasing the own buffer)', facts.config)
    rep.require(n >= 6, 'C13.e: owning-field obligations: %d' % n)


def clause_f(facts, rep):
    """Ownership transfers are complete.  Owning fields of GenericDocument = the raw-pointer fields some member
    function hands to Allocator::Free (derived from the code, today str_ and schema_str_).  Swap must exchange
    every one of them together with the nodes that point into them; the move constructor / move assignment must
    take every one of them from the source and leave the source without it."""
    gd = [f for f in facts.functions if f.cls_qn == GD and is_s(f)]
    own = set()
    for f in gd:
        for bid, i, s, e in f.walk():
            if e.get('k') == 'call' and e.get('cname') == 'Free':
                for x in walk(e):
                    if x.get('k') == 'member' and is_this_member(x):
                        own.add(x['name'])
    rep.require(len(own) >= 2, 'C13.f: owning fields of GenericDocument (freed somewhere): %s' % sorted(own))
    n = 0

    def rhs_member(x, pid, name):
        x = strip(x)
        if x is None or x.get('k') != 'member' or x.get('name') != name:
            return False
        b = strip(x.get('base'))
        return b is not None and b.get('k') == 'ref' and b.get('id') == pid

    def nulled_by(fn, pid):
        """fields of the parameter object that fn leaves null: direct `p.F = nullptr` or a call p.g() of a member g that assigns F = nullptr"""
        out = set()
        for bid, i, s, e in fn.walk():
            if e.get('k') == 'bin' and e['op'] == '=' and cval(e['r']) == 0:
                l = strip(e['l'])
                if l is not None and l.get('k') == 'member':
                    b = strip(l.get('base'))
                    if b is not None and b.get('k') == 'ref' and b.get('id') == pid:
                        out.add(l['name'])
            if e.get('k') == 'call' and e.get('obj') is not None:
                o = strip(e['obj'])
                g = facts.by_id.get(e.get('cid'))
                if o is not None and o.get('k') == 'ref' and o.get('id') == pid and g is not None and g.cls_qn == GD:
                    for _, _, _, y in g.walk():
                        if y.get('k') == 'bin' and y['op'] == '=' and cval(y['r']) == 0 and is_this_member(strip(y['l'])):
                            out.add(strip(y['l'])['name'])
        return out
    for f in gd:
        same = [p for p in f.params if 'GenericDocument' in (p.get('t') or '')]
        if f.short == 'Swap' and same:
            rep.fn(f)
            pid = same[0]['id']
            for F in sorted(own):
                n += 1
                ok = any(e.get('k') == 'call' and e.get('cname') == 'swap' and len(e.get('args', [])) == 2 and
                         ((is_this_member(strip(e['args'][0]), F) and rhs_member(e['args'][1], pid, F)) or (is_this_member(strip(e['args'][1]), F) and rhs_member(e['args'][0], pid, F)))
                         for _, _, _, e in f.walk())
                rep.check(ok, 'E8.transfer-complete', f.qn, 'Swap exchanges owning field %s' % F, f.loc,
                          'the nodes move to the other document, so the buffer they point into must move with them (otherwise it is freed by the wrong owner while still referenced)', facts.config)
        is_move = same and '&&' in (same[0].get('t') or '')
        if is_move and f.short in ('GenericDocument', 'operator='):
            rep.fn(f)
            pid = same[0]['id']
            nulled = nulled_by(f, pid)
            for F in sorted(own):
                n += 1
                took = False
                for bid, i, s in f.stmts():
                    s_ = strip(s)
                    if s_ is None:
                        continue
                    if s_.get('k') == 'init' and s_.get('name', s_.get('field')) == F and any(rhs_member(x, pid, F) for x in walk(s_) if x.get('k') == 'member'):
                        took = True
                    if s_.get('k') == 'bin' and s_['op'] == '=' and is_this_member(strip(s_['l']), F) and rhs_member(s_['r'], pid, F):
                        took = True
                rep.check(took and F in nulled, 'E8.transfer-complete', f.qn, '%s takes %s from the source and leaves the source without it' % ('move constructor' if f.short != 'operator=' else 'move assignment', F), f.loc,
                          'took=%s, source fields nulled=%s' % (took, sorted(nulled)), facts.config)
    rep.require(n >= 6, 'C13.f: transfer obligations found: %d' % n)


def clause_release_order(facts, rep):
    """A node method that releases what `this` owns (destroy()) while it also takes another node by reference must be
    finished with that other node before the release: the documented use `n = std::move(n[i])` passes a descendant of
    `this`, whose storage is part of what destroy() frees (DNode::operator=(DNode&&): "rhs could be used after free if
    it's a sub-node of this").  Only rvalue-reference parameters (the move forms) are held to this: CopyFrom(n[i]) of an own
    descendant does destroy() first, as RapidJSON's does, and is not a use the library documents.  Typestate over the CFG: no use of the node parameter is reachable from a destroy() on this."""
    n = 0
    for f in facts.functions:
        if not f.blocks or 'DNode' not in (f.cls_qn or '') or not is_s(f):
            continue
        ps = [p_ for p_ in f.params if '&&' in (p_.get('t') or '') and ('DNode' in p_['t'] or 'GenericNode' in p_['t']) and 'Allocator' not in p_['t'].split('<')[0]]
        if not ps:
            continue
        rel = [(bid, i) for bid, i, st, e in f.walk() if e.get('k') == 'call' and e.get('cname') == 'destroy' and (e.get('obj') or {}).get('k') == 'this']
        if not rel:
            continue
        rep.fn(f)
        order = {}
        for bid, i, st in f.stmts():
            order.setdefault(bid, []).append(i)
        for p_ in ps:
            n += 1
            bad = None
            for rb, ri in rel:
                # statements after the release in its block, then every block reachable from it
                seen, todo = set(), [s_ for s_ in f.blocks[rb]['succs'] if s_ is not None]
                while todo:
                    b_ = todo.pop()
                    if b_ in seen:
                        continue
                    seen.add(b_)
                    todo += [s_ for s_ in f.blocks[b_]['succs'] if s_ is not None]
                for bid, i, st, e in f.walk():
                    later = (bid == rb and order[bid].index(i) > order[bid].index(ri)) or bid in seen
                    if later and e.get('k') == 'ref' and e.get('id') == p_['id']:
                        bad = (st, e)
                        break
                if bad:
                    break
            rep.check(bad is None, 'E8.release-order', f.qn, 'no use of the node parameter %s after destroy() of this' % p_['name'], f.loc,
                      ('%s (%s) reads %s after this->destroy(): when %s is a descendant of this (n = std::move(n[i])) its storage has just been freed' %
                       (show(bad[0])[:80], locline(bad[1].get('loc', f.loc)), p_['name'], p_['name'])) if bad else '', facts.config)
    rep.require(n >= 1, 'C13: node methods that release this while holding another node: %d' % n)


def clause_g(facts, rep):
    """Lifetime of the document's string buffers: nodes hold views into str_ / schema_str_ (kStringCopy), so a buffer
    may be handed to Free only after the nodes of this document were destroyed on the same path (destroyDom's ~DNode,
    or the base-class move assignment that releases the old nodes first)."""
    gd = [f for f in facts.functions if f.cls_qn == GD and is_s(f)]
    n = 0
    for f in gd:
        frees = []
        for bid, i, s, e in f.walk():
            if e.get('k') == 'call' and e.get('cname') == 'Free':
                fld = [x['name'] for x in walk(e) if x.get('k') == 'member' and is_this_member(x)]
                if fld:
                    frees.append((bid, i, e, fld[0]))
        if not frees:
            continue
        rep.fn(f)

        def gen_stmt(st):
            for e in walk(st):
                if e.get('k') != 'call':
                    continue
                nm = e.get('cname') or ''
                if nm.startswith('~') or nm in ('destroy', 'destroyDom'):
                    return ['dom-destroyed']
                if nm == 'operator=' and ('DNode' in (e.get('ccls') or '') or 'GenericNode' in (e.get('ccls') or '')):
                    return ['dom-destroyed']
            return []
        M = Must(f, gen_stmt=gen_stmt)
        for bid, i, e, fld in frees:
            st = M.at(bid, i)
            if st is None:
                continue
            n += 1
            rep.check('dom-destroyed' in st, 'E8.buffer-lifetime', f.qn, 'Free(%s)' % fld, locline(e['loc']),
                      'nodes of the document may still point into %s: the buffer may be released only after the nodes were destroyed on this path' % fld, facts.config)
    rep.require(n >= 4, 'C13.g: Free sites of the document buffers found: %d' % n)


def clause_h(facts, rep):
    """The lookup map owned through a children block is never dropped: the map pointer inside a MetaNode is reset
    (placement-new of a MetaNode over the block, setMap(nullptr), `->map = nullptr`) only
      * on a block that comes fresh from Malloc in the same function,
      * under a test showing that there was no previous block (previous capacity / pointer equal to zero), or
      * after the map was released (Free of getMap()) on the same path.
    A growth by Realloc keeps the header bytes, so re-initialising it there loses a live map."""
    from ..narrowing import _eval as ev1
    n = 0
    for f in facts.functions:
        if f.cls_qn != DN or not is_s(f):
            continue
        resets = []
        defs = {}
        for bid, i, st in f.stmts():
            s_ = strip(st)
            if s_ is not None and s_.get('k') == 'decl':
                for vd in s_['vars']:
                    if vd.get('init') is not None:
                        defs[vd['id']] = vd['init']
        for bid, i, st, e in f.walk():
            if e.get('k') == 'new' and 'MetaNode' in (e.get('at') or '') and e.get('placement'):
                resets.append((bid, i, e, 'placement-new of MetaNode', e['placement'][0]))
            if e.get('k') == 'call' and e.get('cname') == 'setMap' and e.get('args') and cval(e['args'][0]) == 0:
                resets.append((bid, i, e, 'setMap(nullptr)', None))
            if e.get('k') == 'bin' and e['op'] == '=' and strip(e['l']) is not None and strip(e['l']).get('k') == 'member' and strip(e['l']).get('name') == 'map' and cval(e['r']) == 0 \
                    and 'MetaNode' not in (f.cls or '') and f.short != 'MetaNode':
                resets.append((bid, i, e, 'map = nullptr', None))
        if not resets:
            continue
        rep.fn(f)

        def provenance(x, depth=0):
            x = strip(x)
            while x is not None and depth < 8:
                depth += 1
                if x.get('k') in ('cast', 'paren'):
                    x = strip(x['e'])
                elif x.get('k') == 'ref' and x.get('id') in defs:
                    x = strip(defs[x['id']])
                elif x.get('k') == 'call':
                    return x.get('cname')
                else:
                    return None
            return None

        def gen_edge(b, cond, sense):
            c = strip_expect(cond)
            if c is None:
                return []
            ids = [y for y in walk(c) if y.get('k') == 'ref' and y.get('dk') in ('local', 'param')]
            if len(set(y['id'] for y in ids)) != 1:
                return []
            vid = ids[0]['id']
            try:
                sat = [v for v in (0, 1, 2, 16, 1 << 20) if bool(ev1(c, {vid: v})) == sense]
            except KeyError:
                return []
            return ['first-alloc'] if sat == [0] else []

        def gen_stmt(st):
            for e in walk(st):
                if e.get('k') == 'call' and e.get('cname') == 'Free' and e.get('args'):
                    from . import c12 as _c12
                    _c12._FACTS[0] = facts
                    a_ = e['args'][0]
                    if _c12.is_map_expr(a_) or any(y.get('k') == 'ref' and y.get('id') in defs and _c12.is_map_expr(defs[y['id']]) for y in walk(a_)):
                        return ['map-freed']      # the map read through its accessor, directly or via a local that names it
            return []
        M = Must(f, gen_edge=gen_edge, gen_stmt=gen_stmt)
        for bid, i, e, what, target in resets:
            st = M.at(bid, i)
            if st is None:
                continue
            n += 1
            fresh = target is not None and provenance(target) in ('Malloc', 'malloc')
            rep.check(fresh or 'first-alloc' in st or 'map-freed' in st, 'E8.map-preserved', f.qn, '%s: %s' % (what, show(e)[:60]), locline(e['loc']),
                      'the map pointer of a children block may be reset only on a fresh block, when there was no previous block, or after the map was freed; '
                      'block provenance: %s, facts: %s' % (provenance(target) if target is not None else '-', sorted(st)), facts.config)
    rep.require(n >= 3, 'C13.h: map pointer resets found: %d' % n)


ASSIGNING_ALGOS = ('move', 'copy', 'move_backward', 'copy_backward', 'swap_ranges', 'rotate', 'fill', 'fill_n', 'copy_n', 'swap', 'iter_swap')


def clause_dead_slots(facts, rep):
    """slots whose nodes were destroyed in place (explicit destructor call) keep their old header bits: from there on
    they may only be overwritten raw (memmove / memcpy / Xmemcpy / placement new).  A node assignment - directly or
    through a std algorithm that assigns (std::move, std::copy, ...) - runs destroy() on its target first and releases
    the already released blocks a second time.  Checked for every function of the node classes that contains an
    explicit node destructor call: no assigning call is reachable from it."""
    n = 0
    seen = set()
    for f in facts.functions:
        if not (f.cls_qn or '').startswith('sonic_json::DNode') and not (f.cls_qn or '').startswith('sonic_json::GenericNode'):
            continue
        if not any(a in f.name for a in ('SAlloc', 'SimpleAllocator')):
            continue
        dtors = [(bid, i, e) for bid, i, s_, e in f.walk() if e.get('k') == 'call' and (e.get('cname') or '').startswith('~') and 'Node' in (e.get('cname') or '')]
        if not dtors or f.loc in seen:
            continue
        seen.add(f.loc)
        rep.fn(f)
        # blocks reachable from a destructor call (the rest of its own block counts)
        reach = set()
        work = []
        after = {}
        for bid, i, e in dtors:
            after.setdefault(bid, i if isinstance(i, int) else 10 ** 6)
            after[bid] = min(after[bid], i if isinstance(i, int) else 10 ** 6)
            work.extend(x for x in f.blocks[bid]['succs'] if x is not None)
        while work:
            x = work.pop()
            if x in reach:
                continue
            reach.add(x)
            work.extend(y for y in f.blocks[x]['succs'] if y is not None)
        bad = None
        for bid, i, s_, e in f.walk():
            if e.get('k') != 'call':
                continue
            later = bid in reach or (bid in after and isinstance(i, int) and i > after[bid])
            if not later:
                continue
            cn = e.get('cname') or ''
            callee = e.get('callee') or e.get('cdiag') or ''
            assigning = (cn in ASSIGNING_ALGOS and callee.startswith('std::') and len(e.get('args', [])) >= 2) or \
                        (cn == 'operator=' and 'Node' in (e.get('ccls') or ''))
            if assigning and bad is None:
                bad = (e, cn)
        n += 1
        rep.check(bad is None, 'E8.dead-slots', f.qn, 'after the in-place destructor calls (%d) the slots are only overwritten raw' % len(dtors), f.loc,
                  ('%s at %s assigns onto node slots although some were destroyed in place earlier in the function' % (show(bad[0])[:70], locline(bad[0]['loc']))) if bad else '',
                  facts.config)
    rep.require(n >= 2, 'C13: functions with in-place node destructor calls found: %d (>= 2 expected)' % n)


def run(rep, tier):
    configs = ['K1'] if tier == 'quick' else ['K1', 'K3']
    for cfg in configs:
        facts = get_facts(cfg)
        rep.unit(facts)
        clause_a(facts, rep)
        clause_b(facts, rep)
        clause_c(facts, rep)
        clause_d(facts, rep)
        clause_e(facts, rep)
        clause_f(facts, rep)
        clause_g(facts, rep)
        clause_release_order(facts, rep)
        clause_h(facts, rep)
        clause_dead_slots(facts, rep)
    # 'released exactly once' for the container mutation API: the bounded exploration of C12 with its allocation ledger
    # (freeing-allocator instantiation): a double release is undefined behaviour in the model, what is still live after
    # the final destroy() is a leak
    from . import c12 as _c12
    try:
        _c12.clause_model(get_facts('K1'), rep, tier, kinds=('free',))
    except AnalysisBroken as ex:
        rep.broken.append(str(ex))
    rep.trust('clang 14 front end', 'clang -verify for the compile-fail witnesses', 'libc realloc/free')
    rep.assumptions += [
        'decides type-level copy prohibition, raw-move pairing, destroy-before-overwrite with provenance, the arms of destroy() the discipline of owning raw-pointer fields and the completeness of Swap / move transfers of the document buffers (freeing-allocator instantiations)',
        'does NOT decide exactly-once over arbitrary histories (a dynamic ledger property) nor independence of copies beyond the type-level and string-arm facts',
    ]
