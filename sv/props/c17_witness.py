from ..witness import run_group


def check(rep):
    run_group(rep, 'c17_const.cpp', 'K1', 'E10.const-witness', 'sonic_json::GenericDocument (const)')
