"""C09 — String quoting is exact for all bytes and stays in its buffers: clauses
(a) escape tables, (b) length bound, (c) caller reserve vs worst transient
extent, (d) production tail guard evaluated over its whole finite domain /
sanitizer branch absent, (e) vector loop bound (DESIGN.md section 5/C09)."""
from ..core import get_facts, strip, strip_expect, cval, show, walk, locline, AnalysisBroken
from ..e5_tables import arr, find_static, check_rows
from ..e3_interval import intervals_for, table_value_ranges
from ..primitives import LOAD_WIDTH

NS = 'sonic_json::internal::'
SHORT = {8: b'\\b', 9: b'\\t', 10: b'\\n', 12: b'\\f', 13: b'\\r', 34: b'\\"', 92: b'\\\\'}


def want_escape(b):
    if b in SHORT:
        return SHORT[b]
    if b < 0x20:
        return ('\\u%04x' % b).encode()
    return None


def clause_a(facts, rep):
    max_n = None
    # the scalar 'needs an escape' predicate, whatever its representation (a table of flags today): decided by evaluating
    # the functions that consult it for every byte value (sv/minterp.py with a byte memory)
    need = [1 if (b < 0x20 or b in (34, 92)) else 0 for b in range(256)]
    ss = find_static(facts, name='kNeedEscaped')
    if ss and len(arr(ss[0]['value'])) == 256:
        s = ss[0]
        check_rows(rep, 'E5.table', s['qn'], 'kNeedEscaped', locline(s['loc']), arr(s['value']), need, facts.config, "b < 0x20 or b in {'\"','\\\\'}")
    from ..minterp import Interp, Unsupported as _Uns, UndefinedBehaviour as _UB
    fm = [f for f in facts.functions if f.short == 'GetEscapeMask4' and len(f.params) == 1]
    rep.require(len(fm) >= 1, 'C09.a: GetEscapeMask4 not found')
    for f in fm[:1]:
        rep.fn(f)
        bad = None
        base = 4096
        try:
            for pos in range(4):
                for b in range(256):
                    buf = [0x61] * 4
                    buf[pos] = b
                    it = Interp(f, facts)
                    it.memory = {base + i: x for i, x in enumerate(buf)}
                    r = it.run({f.params[0]['id']: base}, {})[0]
                    if r != (need[b] << pos) and bad is None:
                        bad = 'byte 0x%02x at position %d gives mask 0x%x, expected 0x%x' % (b, pos, r, need[b] << pos)
        except _UB as ex:
            bad = 'undefined behaviour: %s' % ex
        except _Uns as ex:
            raise AnalysisBroken('C09.a: GetEscapeMask4 cannot be evaluated: %s' % ex)
        rep.check(bad is None, 'E5.escape-predicate', f.qn, "bit i of GetEscapeMask4 is set iff byte i is < 0x20, '\"' or '\\\\' (1024 evaluations)", f.loc, bad or '', facts.config)
    # DoEscape goes on to the next byte without returning to the vector scan only if that byte needs an escape: the
    # branch that ends the call is evaluated for every value of the byte at the cursor
    fd = [f for f in facts.functions if f.short == 'DoEscape']
    rep.require(len(fd) >= 1, 'C09.a: DoEscape not found')
    for f in fd[:1]:
        rep.fn(f)
        site = None
        for bid_, B in f.blocks.items():
            t = B.get('term')
            if not t or t.get('cond') is None or len(B['succs']) != 2:
                continue
            c = t['cond']
            reads_src = any(x.get('k') == 'ref' and x.get('id') == f.params[0]['id'] for x in walk(c)) and \
                any((x.get('k') == 'un' and x.get('op') == '*') or x.get('k') in ('sub', 'call') for x in walk(c))
            if reads_src:
                site = (bid_, c, B['succs'])
        rep.require(site is not None, 'C09.a: the continue / return decision of DoEscape on the next byte not found')
        if site is not None:
            bid_, c, succs = site

            def has_ret(b_):
                return any(isinstance(strip(x), dict) and strip(x).get('k') == 'ret' for x in f.blocks[b_]['stmts']) if b_ is not None else False
            ret_on_true = has_ret(succs[0])
            ret_on_false = has_ret(succs[1])
            bad = None
            try:
                for b in range(256):
                    it = Interp(f, facts)
                    it.memory = {4096: b}
                    v = it.ev(c, {f.params[0]['id']: 4096}, {})
                    cont = (not v) if ret_on_true else bool(v)
                    if bool(cont) != bool(need[b]) and bad is None:
                        bad = 'after an escaped byte, a following byte 0x%02x %s (it %s an escape)' % (
                            b, 'is escaped through the table in the same call' if cont else 'ends the call', 'needs' if need[b] else 'does not need')
            except _UB as ex:
                bad = 'undefined behaviour: %s' % ex
            except _Uns as ex:
                raise AnalysisBroken('C09.a: the decision of DoEscape cannot be evaluated: %s' % ex)
            rep.check(bad is None and (ret_on_true != ret_on_false), 'E5.escape-predicate', f.qn, 'DoEscape continues with the next byte iff that byte needs an escape (256 evaluations)',
                      locline(c['loc']), bad or '', facts.config)
    ss = find_static(facts, name='kQuoteTab')
    rep.require(len(ss) == 1, 'C09.a: kQuoteTab not found')
    if ss:
        s = ss[0]
        rows = arr(s['value'])
        bad = 0
        max_n = 0
        for b in range(256):
            r = rows[b] if b < len(rows) else (0, None)
            n, lit = r[0], r[1]
            w = want_escape(b)
            if w is None:
                # never consulted for bytes that need no escape (kNeedEscaped gates DoEscape); n must still be sane
                ok = n == 0 or (lit is not None and n <= len(lit))
            else:
                ok = (lit is not None and n == len(w) and bytes(lit[:n]) == w and len(lit) >= 8)
                max_n = max(max_n, n)
            if not ok:
                bad += 1
                if bad <= 5:
                    rep.fail('E5.table', s['qn'], 'kQuoteTab[0x%02x] == {%s, %r padded to >= 8 bytes}' % (b, len(w) if w else 0, w), locline(s['loc']),
                             'found {%s, %r}' % (n, bytes(lit) if lit is not None else None), facts.config)
        if not bad:
            rep.ok('E5.table', '%s: all 256 rows are the RFC 8259 escapes (short forms, \\u00XX lower case), literals >= 8 bytes' % s['qn'], locline(s['loc']))
            rep.extra['table_rows_checked'] = rep.extra.get('table_rows_checked', 0) + 256
    return max_n


def quote_fn(facts):
    return [f for f in facts.functions if f.short == 'Quote' and f.file.endswith('quote.inc.h')]


def vec_width(facts, f):
    """load/store width of the vector type used by CopyAndGetEscapMask in f's namespace"""
    # by role: the vector loads in f itself and in the helpers it calls (the copy-and-mask helper, whatever its name)
    best = None
    todo = [f]
    seen = set()
    while todo:
        g = todo.pop()
        if g.id in seen or len(seen) > 12:
            continue
        seen.add(g.id)
        for bid, i, s, e in g.walk():
            if e.get('k') == 'ctor':
                for key, w in LOAD_WIDTH.items():
                    if w and e.get('cls', '').endswith(key):
                        best = max(best or 0, w)
            if e.get('k') == 'call' and e.get('cid') is not None and g is f:
                h = facts.by_id.get(e['cid'])
                if h is not None and h.file == f.file:
                    todo.append(h)
    return best


def clause_bc(facts, rep, max_n):
    # DoEscape copies a fixed 8 bytes per escaped character
    cp = None
    for f in facts.functions:
        if f.qn == NS + 'DoEscape':
            rep.fn(f)
            for bid, i, s, e in f.walk():
                if e.get('k') == 'call' and e.get('cname') == 'memcpy':
                    cp = cval(e['args'][2])
    rep.require(cp is not None, 'C09.c: DoEscape copy width not bound')
    if cp is None or max_n is None:
        return
    rep.check(max_n <= cp, 'E5.escape-copy', NS + 'DoEscape', 'copy width %d >= longest escape %d' % (cp, max_n), '', 'every escape must be fully copied', facts.config)
    # caller reserve  a*len + b  from SerializeImpl
    a = b = None
    for g in facts.functions:
        if g.short != 'SerializeImpl':
            continue
        from ..e2_dom import linear
        # by role: the length variable is the one handed to Quote as its byte count; the reserve is the argument of
        # the Grow() call in the block of that Quote call, resolved through the locals it names
        for bid, i, s, e in g.walk():
            if e.get('k') == 'call' and e.get('cname') == 'Quote' and len(e.get('args') or []) >= 2:
                ln = strip(e['args'][1])
                if ln is None or ln.get('k') != 'ref':
                    continue
                defs_ = {}
                for b2, i2, s2 in g.stmts():
                    s2_ = strip(s2)
                    if b2 != bid or not isinstance(s2_, dict):
                        continue
                    if s2_.get('k') == 'bin' and s2_['op'] == '=' and strip(s2_['l']) is not None and strip(s2_['l']).get('k') == 'ref':
                        defs_[strip(s2_['l'])['id']] = s2_['r']
                    if s2_.get('k') == 'decl':
                        for vd in s2_['vars']:
                            if vd.get('init') is not None:
                                defs_[vd['id']] = vd['init']

                def sym(x, depth=0):
                    if x.get('k') == 'ref':
                        if x.get('id') == ln['id']:
                            return 'LEN'
                        return None
                    return None

                def resolve(x, depth=0):
                    x0 = strip(x)
                    if x0 is not None and x0.get('k') == 'ref' and x0.get('id') != ln['id'] and x0.get('id') in defs_ and depth < 4:
                        return resolve(defs_[x0['id']], depth + 1)
                    return x
                for b2, i2, s2, e2 in g.walk():
                    if b2 == bid and e2.get('k') == 'call' and e2.get('cname') == 'Grow' and e2.get('args'):
                        lf = linear(resolve(e2['args'][0]), sym)
                        if lf and 'LEN' in lf:
                            a, b = lf['LEN'], lf.get(1, 0)
                            loc = locline(e2['loc'])
        break
    rep.require(a is not None, 'C09.c: reserve formula of the serializer not bound')
    if a is None:
        return
    for f in quote_fn(facts):
        rep.fn(f)
        W = vec_width(facts, f)
        rep.require(W is not None, 'C09.c: vector width of %s not bound' % f.qn)
        if W is None:
            continue
        # worst transient extent for n >= 1: opening quote + max_n per consumed char (n-1 of them) + the widest single write, or the closing quote
        need_b = max(1 - max_n + max(W, cp), 2)
        rep.check(a >= max_n and b >= need_b, 'E5.reserve', f.qn, 'reserve %d*len + %d covers extent %d*len + %d' % (a, b, max_n, need_b), loc,
                  'Quote writes a full %d-byte vector / %d-byte escape copy at an offset of up to 1 + %d*(len-1)' % (W, cp, max_n), facts.config)
        rep.check(True, 'E5.length-bound', f.qn, 'returned length <= %d*len + 2' % max_n, f.loc, 'from max escape length %d' % max_n, facts.config)


def clause_de(facts, rep, sanitize):
    for f in quote_fn(facts):
        W = vec_width(facts, f)
        if W is None:
            continue
        tables = table_value_ranges(facts)
        iv = intervals_for(facts, f, tables, depth=0)
        pid = {p['name']: p['id'] for p in f.params}
        src_id, nb_id = pid.get('src'), pid.get('nb')
        rep.require(src_id is not None and nb_id is not None, 'C09.d: parameters src/nb not bound in %s' % f.qn)
        # (e) vector loop guard constant == load width
        loop_consts = []
        tail_branch = None
        memcpy_site = None
        tmp_size = None
        for b in f.blocks.values():
            t = b.get('term')
            if not t or t.get('cond') is None:
                continue
            c = strip_expect(t['cond'])
            if t['cls'] == 'WhileStmt' and c.get('k') == 'bin' and c['op'] == '>=' and strip(c['l']).get('id') == nb_id:
                loop_consts.append((cval(c['r']), locline(t['loc'])))
            if t['cls'] == 'IfStmt' and any(x.get('k') == 'ref' and x.get('id') == src_id for x in walk(c)) and \
                    any(x.get('k') == 'bin' and x['op'] == '&' for x in walk(c)):
                tail_branch = (b, t)
        for bid, i, s, e in f.walk():
            if e.get('k') == 'call' and e.get('cname') == 'memcpy':
                memcpy_site = (bid, i, e)
        for bid, i, s in f.stmts():
            s_ = strip(s)
            if s_.get('k') == 'decl':
                for v in s_['vars']:
                    if v['name'] == 'tmp_src' and '[' in v['t']:
                        tmp_size = int(v['t'].split('[')[1].split(']')[0])
        rep.check(len(loop_consts) == 1 and loop_consts[0][0] == W, 'E5.vector-loop', f.qn, 'full-vector loop runs while nb >= %s' % [c for c, _ in loop_consts],
                  loop_consts[0][1] if loop_consts else f.loc, 'must equal the vector load width %d' % W, facts.config)
        # nb range at the tail
        if memcpy_site is None or tmp_size is None:
            rep.require(False, 'C09.d: bounce buffer (tmp_src / memcpy) not found in %s' % f.qn)
            continue
        st = iv.at(memcpy_site[0], memcpy_site[1])
        nbr = st.get(nb_id) if st else None
        rep.check(nbr is not None and nbr[0] >= 1 and nbr[1] <= W - 1, 'E3.tail-range', f.qn, 'tail length range %s at the bounce copy' % (nbr,), locline(memcpy_site[2]['loc']),
                  'must be within [1, %d]' % (W - 1), facts.config)
        if nbr is None:
            continue
        # bounce buffer large enough for a full vector load at its last valid byte, copy length == nb
        ln = strip(memcpy_site[2]['args'][2])
        rep.check(ln.get('k') == 'ref' and ln.get('id') == nb_id, 'E3.bounce-copy', f.qn, show(memcpy_site[2]), locline(memcpy_site[2]['loc']),
                  'exactly the remaining nb bytes may be read from the source', facts.config)
        rep.check(tmp_size >= (nbr[1] - 1) + W, 'E3.bounce-copy', f.qn, 'bounce buffer %d bytes >= %d' % (tmp_size, nbr[1] - 1 + W), locline(memcpy_site[2]['loc']),
                  'a full-vector load may start at its last valid byte', facts.config)
        # tail mask keeps exactly the low nb bits: evaluated for every tail length
        masks = 0
        for bid, i, s, e in f.walk():
            if e.get('k') == 'bin' and e['op'] == '&':
                ops = [strip_expect(e['l']), strip_expect(e['r'])]
                calls = [x for x in ops if x is not None and x.get('k') == 'call' and x.get('cname') == 'CopyAndGetEscapMask']
                if len(calls) == 1:
                    m = ops[1] if ops[0] is calls[0] else ops[0]
                    masks += 1
                    try:
                        badnb = [nb for nb in range(nbr[0], nbr[1] + 1) if eval_guard(m, {nb_id: nb}) != (1 << nb) - 1]
                    except KeyError as ex:
                        raise AnalysisBroken('C09.d: tail mask not evaluable: %s' % ex)
                    rep.check(not badnb, 'E5.tail-mask', f.qn, 'tail mask %s == 2^nb - 1 for nb in [%d, %d]' % (show(m), nbr[0], nbr[1]), locline(e['loc']),
                              'wrong for nb = %s' % badnb[:3], facts.config)
        rep.require(masks == 1, 'C09.d: tail mask of %s not found' % f.qn)
        # (d) the direct over-read guard, evaluated for every page offset and tail length
        if sanitize:
            rep.check(tail_branch is None, 'E3.page-guard', f.qn, 'no direct over-read branch when sanitizer macros are defined', f.loc,
                      'under sanitizers the tail must always go through the bounce buffer', facts.config)
            continue
        if tail_branch is None:
            # always bouncing is safe (slower): accept
            rep.ok('E3.page-guard', '%s: tail always copied through the bounce buffer' % f.qn, f.loc)
            continue
        b, t = tail_branch
        page = 4096
        bad = None
        n_eval = 0
        try:
            for o in range(page):
                for nb in range(nbr[0], nbr[1] + 1):
                    n_eval += 1
                    g = eval_guard(t['cond'], {src_id: 7 * page + o, nb_id: nb})
                    if g:
                        last_page_end = ((o + nb - 1) // page + 1) * page
                        if o + (nb - 1) + W > last_page_end:
                            bad = (o, nb)
                            break
                if bad:
                    break
        except KeyError as ex:
            raise AnalysisBroken('C09.d: page guard not evaluable: %s' % ex)
        rep.extra['page_guard_evaluations'] = rep.extra.get('page_guard_evaluations', 0) + n_eval
        rep.check(bad is None, 'E3.page-guard', f.qn, 'direct tail read only when no %d-byte load can leave the page of the last string byte' % W, locline(t['loc']),
                  'guard %s is true for page offset %s with %s bytes left: a load at the last byte would cross into the next page' % (
                      show(t['cond']), bad and bad[0], bad and bad[1]), facts.config)


def eval_guard(e, env):
    c = cval(e)
    e_ = strip(e)
    if c is not None and e_.get('k') != 'ref':
        return c
    k = e_.get('k')
    if k == 'ref':
        if e_['id'] in env:
            return env[e_['id']]
        if c is not None:
            return c
        raise KeyError('variable %s' % e_.get('name'))
    if k == 'call' and e_.get('cname') == '__builtin_expect':
        return eval_guard(e_['args'][0], env)
    if k == 'un':
        v = eval_guard(e_['e'], env)
        return {'!': int(not v), '-': -v, '~': ~v & (2 ** 64 - 1)}[e_['op']]
    if k == 'bin':
        l, r = eval_guard(e_['l'], env), eval_guard(e_['r'], env)
        M = 2 ** 64 - 1
        if e_['op'] in ('<<', '>>'):
            if not (0 <= r < 64):
                return 0
            return (l << r) & M if e_['op'] == '<<' else l >> r
        return {'&': l & r, '|': l | r, '+': (l + r) & M, '-': (l - r) & M, '*': (l * r) & M, '<=': int(l <= r), '<': int(l < r), '>=': int(l >= r),
                '>': int(l > r), '==': int(l == r), '!=': int(l != r), '>>': l >> r, '<<': (l << r) & M, '%': l % r if r else 0, '/': l // r if r else 0,
                '&&': int(bool(l) and bool(r)), '||': int(bool(l) or bool(r))}[e_['op']]
    raise KeyError('expression %s' % show(e_))


def clause_f(facts, rep):
    """DoEscape reads a source byte only while the remaining count says one is left: every dereference of the
    source cursor is dominated, since the cursor/count last moved, by a test that implies nb >= 1 (the entry state
    counts: Quote calls DoEscape on the byte that needs escaping, so nb >= 1 there)."""
    from ..e2_dom import Must
    from ..narrowing import _eval as ev1
    n = 0
    for f in facts.functions:
        if f.qn != NS + 'DoEscape':
            continue
        ps = {p_.get('name'): p_['id'] for p_ in f.params}
        rep.require('src' in ps and 'nb' in ps, 'C09.f: DoEscape parameters src/nb not bound')
        if 'src' not in ps or 'nb' not in ps:
            continue
        sid, nid = ps['src'], ps['nb']

        def writes(s_):
            out = set()
            for y in walk(s_):
                if y.get('k') == 'bin' and y['op'] in ('=', '+=', '-=') and strip(y['l']) is not None and strip(y['l']).get('k') == 'ref':
                    out.add(strip(y['l'])['id'])
                if y.get('k') == 'un' and y['op'] in ('++', '--') and strip(y['e']) is not None and strip(y['e']).get('k') == 'ref':
                    out.add(strip(y['e'])['id'])
            return out

        def kill_stmt(st):
            s_ = strip(st)
            return ['avail'] if s_ is not None and (writes(s_) & {sid, nid}) else []

        def gen_edge(b, cond, sense):
            c = strip_expect(cond)
            if c is None:
                return []
            ids = set(y.get('id') for y in walk(c) if y.get('k') == 'ref' and y.get('dk') in ('local', 'param'))
            if ids != {nid}:
                return []
            cands = list(range(0, 70)) + [2 ** 64 - 1 - k for k in range(0, 4)] + [2 ** 63 - 1, 2 ** 63, 2 ** 63 + 1, 2 ** 32 - 1, 2 ** 32, 2 ** 31]
            try:
                sat = [v for v in cands if bool(ev1(c, {nid: v})) == sense]
            except KeyError:
                return []
            return ['avail'] if all(v >= 1 for v in sat) else []
        M = Must(f, gen_edge=gen_edge, kill_stmt=kill_stmt, entry=frozenset(['avail']))

        def derefs(x):
            for y in walk(x):
                if y.get('k') == 'un' and y['op'] == '*' and any(z.get('k') == 'ref' and z.get('id') == sid for z in walk(y['e'])):
                    yield y
                if y.get('k') == 'sub' and any(z.get('k') == 'ref' and z.get('id') == sid for z in walk(y.get('base'))):
                    yield y
                # the cursor handed to a helper that reads the byte at it (a predicate on *src): a read as well
                if y.get('k') == 'call' and not (y.get('cname') or '').startswith('mem') and \
                        any(strip(a) is not None and strip(a).get('k') == 'ref' and strip(a).get('id') == sid and '*' in (strip(a).get('t') or '') for a in y.get('args', [])):
                    yield y
        for bid, B in f.blocks.items():
            items = [(i, s) for i, s in enumerate(B['stmts'])]
            t = B.get('term')
            if t and t.get('cond') is not None:
                items.append(('cond', t['cond']))
            for i, s in items:
                ds = list(derefs(s))
                if not ds:
                    continue
                # a sub-expression also appears as its own earlier CFG element: only count outermost statements once
                st = M.at(bid, i)
                if st is None:
                    continue
                n += 1
                rep.check('avail' in st, 'E2.escape-peek', f.qn, 'source byte read in %s' % show(strip(s) if isinstance(s, dict) else s)[:80], locline(ds[0]['loc']),
                          'the source cursor may be dereferenced only while nb >= 1 is known since src/nb last moved (the byte after the string is not readable)', facts.config)
    rep.require(n >= 2, 'C09.f: only %d source reads found in DoEscape' % n)


def run(rep, tier):
    # K4 (dynamic dispatch) is in the quick tier too: it is the only configuration in which both kernels are compiled
    # in one translation unit, so per-kernel macros (VEC_LEN, VEC_FULL_MASK) can leak from one into the other
    # K8: dynamic dispatch on an SSE4.2 baseline - compile-time ISA macros say SSE while the AVX2 kernel can be the one that runs
    # K9: the SSE kernel in a sanitizer build (its own detection of the sanitizer macros)
    configs = [('K1', False), ('K2', True), ('K4', False), ('K8', False), ('K9', True)] if tier == 'quick' else [('K1', False), ('K2', True), ('K3', False), ('K4', False), ('K8', False), ('K9', True)]
    for cfg, san in configs:
        facts = get_facts(cfg)
        rep.unit(facts)
        m = None
        for cl_ in (lambda: clause_a(facts, rep), lambda: clause_bc(facts, rep, m), lambda: clause_de(facts, rep, san), lambda: clause_f(facts, rep)):
            try:
                r_ = cl_()
                if m is None and r_ is not None:
                    m = r_
            except AnalysisBroken as ex:
                rep.broken.append(str(ex))       # the other clauses and the evaluation of Quote still run
        # the escape mask is built with `v < 0x20` on unsigned byte vectors: the wrapper operators must be unsigned (shared with C15)
        from . import c15
        c15.clause_h(facts, rep)
    # Quote itself, byte by byte (sv/quoteeval.py): every byte value around the vector blocks, special bytes at every
    # position, the source ending at every small distance from the end of its page (next page unmapped), stores inside the
    # serializer's reservation - in every configuration of this tier (incl. the sanitizer builds and dynamic dispatch)
    from .. import quoteeval
    for cfg, san in configs:
        try:
            quoteeval.clause(get_facts(cfg), rep, tier, exact_reads=san)
        except AnalysisBroken as ex:
            rep.broken.append(str(ex))
    # the shape rules on Quote / DoEscape (named locals src / nb / tmp_src, the tail mask, the vector loop) are decided
    # together with that evaluation
    for r_ in ('E3.bounce-copy', 'E3.page-guard', 'E3.tail-range', 'E5.tail-mask', 'E5.vector-loop', 'E2.escape-peek', 'E5.escape-copy', 'E5.length-bound'):
        rep.corroborate(r_, 'E5.quote-eval')
    for pre_ in ('C09.d:', 'C09.f:', 'C09.c: vector width', 'C09.c: DoEscape copy width', 'C09.a: the continue / return decision', 'C09.a: the decision of DoEscape'):
        rep.corroborate_floor(pre_, 'E5.quote-eval')
    rep.trust('clang 14 front end and constant evaluator', 'vector load/store widths in sv/primitives.py', 'page size 4096 (the value of PAGE_SIZE in quote.inc.h)')
    rep.assumptions += [
        'decides the escape tables, the length bound and reserve formula, the tail guard over every (page offset, tail length) pair in both macro branches, bounce buffer size and tail mask',
        'DoEscape never reads the source cursor without a remaining byte (entry contract: Quote calls it on a byte that needs escaping)',
        'E5.quote-eval decides that the bytes between the quotes decode back to the input for the enumerated strings (all byte values, special bytes at every position up to two blocks, page-end placements)',
    ]
