"""Abstract evaluation of the byte-comparison routines on their "all bytes equal"
path for a concrete length: pointers are (buffer, offset), vector loads are
remembered as byte ranges, a compare of two loads is an all-ones mask whose
provenance is the compared range. Records which bytes of [0, s) take part in a
comparison that can make the function report a difference, and every memory
access with its extent. Deciding coverage and bounds for every length up to a
bound is an exhaustive check of a finite family of straight-line skeletons."""
from .core import strip, strip_expect, cval, show, walk, locline

LOADS = {'_mm256_loadu_si256': 32, '_mm_loadu_si128': 16, '_mm256_load_si256': 32, '_mm_load_si128': 16}
CMPEQ = ('_mm256_cmpeq_epi8', '_mm_cmpeq_epi8')
MOVEMASK = {'_mm256_movemask_epi8': 32, '_mm_movemask_epi8': 16}
ANDS = ('_mm256_and_si256', '_mm_and_si128')


class Unsupported(Exception):
    pass


class Ptr:
    def __init__(self, base, off):
        self.base, self.off = base, off


class Load:
    def __init__(self, base, off, width):
        self.base, self.off, self.width = base, off, width


class Eq:
    """all-ones compare result; ranges = list of (offset, width) compared between A and B"""
    def __init__(self, ranges, lanes):
        self.ranges, self.lanes = ranges, lanes


class Mask:
    """integer mask derived from an Eq: value is concrete (all equal), prov = compared ranges"""
    def __init__(self, value, prov, bits):
        self.value, self.prov, self.bits = value, prov, bits


class Skeleton:
    def __init__(self, facts, s, in_page):
        self.facts = facts
        self.s = s
        self.in_page = in_page
        self.accesses = []      # (base, off, width, page_guarded, loc)
        self.covered = set()
        self.errors = []
        self.guard_depth = 0

    def cover(self, ranges, limit=None):
        for off, w in ranges:
            for k in range(off, off + w):
                if 0 <= k < self.s and (limit is None or k < limit):
                    self.covered.add(k)

    def call(self, fn, args, depth=0):
        if depth > 6:
            raise Unsupported('recursion')
        env = {}
        for p, a in zip(fn.params, args):
            env[p['id']] = a
        b = fn.entry
        steps = 0
        saved = getattr(self, 'cur_fn', None)
        self.cur_fn = fn.short
        try:
            return self._body(fn, env, b, depth)
        finally:
            self.cur_fn = saved

    def _body(self, fn, env, b, depth):
        steps = 0
        while True:
            steps += 1
            if steps > 4000:
                raise Unsupported('no termination in %s' % fn.qn)
            B = fn.blocks[b]
            for st in B['stmts']:
                s_ = strip(st)
                k = s_.get('k')
                if k == 'ret':
                    v = self.ev(s_['e'], env, fn, depth) if s_.get('e') is not None else None
                    return self.decide(v)
                if k == 'decl':
                    for v in s_['vars']:
                        if v.get('init') is not None:
                            env[v['id']] = self.ev(v['init'], env, fn, depth)
                    continue
                if k == 'other' and s_.get('cls') == 'GCCAsmStmt':
                    self.asm(s_, env, fn, depth)
                    continue
                if k == 'autodtor':
                    continue
                self.ev(s_, env, fn, depth)
            t = B.get('term')
            succs = B['succs']
            live = [x for x in succs if x is not None]
            if not live:
                return None
            if t and t.get('cond') is not None and len(succs) == 2 and t['cls'] != 'SwitchStmt':
                v = self.decide(self.ev(t['cond'], env, fn, depth))
                b = succs[0] if v else succs[1]
                if b is None:
                    raise Unsupported('pruned edge')
            else:
                b = live[0]
            if b == fn.exit:
                return None

    def decide(self, v):
        """a value used in a decision / returned: masks contribute their provenance to the coverage"""
        if isinstance(v, Mask):
            self.cover(v.prov)
            return v.value
        return v

    def asm(self, s_, env, fn, depth):
        # bzhil %1(s), %2(mask), result(mask): keep the low s bits of the mask (Intel SDM BZHI)
        src = s_.get('src', '')
        if 'bzhi' not in src:
            raise Unsupported('asm %s' % src[:40])
        kids = [c for c in s_.get('children', []) if c is not None]
        # children: output operand, input operands...: find the mask variable (an int local holding a Mask)
        target = None
        nbits = None
        for c in kids:
            for x in walk(c):
                if x.get('k') == 'ref' and isinstance(env.get(x.get('id')), Mask):
                    target = x['id']
                elif x.get('k') == 'ref' and isinstance(env.get(x.get('id')), int) and nbits is None:
                    nbits = env[x['id']]
        if target is None or nbits is None:
            raise Unsupported('bzhi operands not bound')
        m = env[target]
        keep = (1 << nbits) - 1 if nbits < 32 else 0xFFFFFFFF
        prov = []
        for off, w in m.prov:
            prov.append((off, min(w, nbits)))
        env[target] = Mask(m.value & keep, prov, m.bits)

    def ev(self, e, env, fn, depth):
        c = cval(e)
        e_ = strip(e)
        if e_ is None:
            return None
        k = e_.get('k')
        if c is not None and k != 'ref':
            return c
        if k == 'ref':
            if e_.get('id') in env:
                return env[e_['id']]
            if c is not None:
                return c
            raise Unsupported('ref %s in %s' % (e_.get('name'), fn.qn))
        if k == 'lit':
            return int(e_['v'])
        if k == 'un':
            op = e_['op']
            if op == '*':
                p = self.ev(e_['e'], env, fn, depth)
                if isinstance(p, Ptr):
                    self.access(p, 1, e_)
                    return ('byte', p.base, p.off)
                raise Unsupported('deref')
            v = self.decide(self.ev(e_['e'], env, fn, depth)) if op == '!' else self.ev(e_['e'], env, fn, depth)
            if op == '!':
                return int(not v)
            if op == '~':
                return ~v & 0xFFFFFFFFFFFFFFFF
            if op == '-':
                return -v
            if op in ('++', '--'):
                t = strip(e_['e'])
                old = env[t['id']]
                env[t['id']] = old + (1 if op == '++' else -1)
                return old if e_.get('post') else env[t['id']]
            raise Unsupported('unary ' + op)
        if k == 'bin':
            op = e_['op']
            if op == '=':
                v = self.ev(e_['r'], env, fn, depth)
                t = strip(e_['l'])
                if t.get('k') == 'ref':
                    env[t['id']] = v
                    return v
                raise Unsupported('store')
            if op in ('+=', '-='):
                t = strip(e_['l'])
                r = self.ev(e_['r'], env, fn, depth)
                old = env[t['id']]
                if isinstance(old, Ptr):
                    env[t['id']] = Ptr(old.base, old.off + (r if op == '+=' else -r))
                else:
                    env[t['id']] = old + (r if op == '+=' else -r)
                return env[t['id']]
            if op in ('&&', '||'):
                l = self.decide(self.ev(e_['l'], env, fn, depth))
                if op == '&&':
                    return int(bool(l) and bool(self.decide(self.ev(e_['r'], env, fn, depth))))
                return int(bool(l) or bool(self.decide(self.ev(e_['r'], env, fn, depth))))
            l = self.ev(e_['l'], env, fn, depth)
            r = self.ev(e_['r'], env, fn, depth)
            if isinstance(l, Ptr) and isinstance(r, int) and op in ('+', '-'):
                return Ptr(l.base, l.off + (r if op == '+' else -r))
            if isinstance(r, Ptr) and isinstance(l, int) and op == '+':
                return Ptr(r.base, r.off + l)
            if isinstance(l, tuple) and isinstance(r, tuple) and l[0] == 'byte' and r[0] == 'byte' and op in ('==', '!=', '-'):
                # two bytes at the same offset of the two equal buffers
                if l[2] != r[2]:
                    self.errors.append(('bytes at different offsets compared', show(e_), locline(e_['loc'])))
                self.cover([(l[2], 1)])
                return {'==': 1, '!=': 0, '-': 0}[op]
            if isinstance(l, Mask) or isinstance(r, Mask):
                m = l if isinstance(l, Mask) else r
                o = r if isinstance(l, Mask) else l
                o = o.value if isinstance(o, Mask) else o
                lv = m.value
                a, bb = (lv, o) if isinstance(l, Mask) else (o, lv)
                if op == '+':
                    return Mask((a + bb) & 0xFFFFFFFF, m.prov, m.bits)
                if op in ('==', '!='):
                    self.cover(m.prov)
                    return int((a == bb) if op == '==' else (a != bb))
                if op == '&':
                    return Mask(a & bb, m.prov, m.bits)
                raise Unsupported('mask op ' + op)
            if isinstance(l, int) and isinstance(r, int):
                if op in ('<<', '>>'):
                    from .minterp import width as _width
                    w_, _sg = _width(e_.get('t'))
                    w_ = max(w_, 32)
                    if not 0 <= r < w_:
                        # undefined in C++; x86 masks the count, so 1u << 32 is 1 and the mask built from it is empty
                        self.errors.append('shift of a %d-bit value by %d in %s (undefined; the hardware shifts by %d)' % (w_, r, show(e_)[:50], r % w_))
                        r = r % w_
                M = 0xFFFFFFFFFFFFFFFF
                fns = {'+': lambda: l + r, '-': lambda: l - r, '*': lambda: l * r, '&': lambda: l & r, '|': lambda: l | r, '<': lambda: int(l < r),
                       '<=': lambda: int(l <= r), '>': lambda: int(l > r), '>=': lambda: int(l >= r), '==': lambda: int(l == r), '!=': lambda: int(l != r),
                       '>>': lambda: l >> r if 0 <= r < 64 else 0, '<<': lambda: (l << r) & M if 0 <= r < 64 else 0,
                       '/': lambda: l // r if r else 0, '%': lambda: l % r if r else 0}
                return fns[op]()
            raise Unsupported('binary %s on %r %r' % (op, type(l).__name__, type(r).__name__))
        if k == 'cond':
            v = self.decide(self.ev(e_['c'], env, fn, depth))
            return self.ev(e_['a'] if v else e_['b'], env, fn, depth)
        if k == 'sub':
            p = self.ev(e_['base'], env, fn, depth)
            i = self.ev(e_['idx'], env, fn, depth)
            if isinstance(p, Ptr) and isinstance(i, int):
                self.access(Ptr(p.base, p.off + i), 1, e_)
                return ('byte', p.base, p.off + i)
            raise Unsupported('subscript')
        if k == 'call':
            return self.do_call(e_, env, fn, depth)
        if k == 'ctor' and len(e_.get('args', [])) == 1:
            return self.ev(e_['args'][0], env, fn, depth)
        raise Unsupported('expr %s in %s' % (show(e_)[:50], fn.qn))

    def access(self, p, width, e):
        self.accesses.append((p.base, p.off, width, self.cur_fn, locline(e.get('loc', '?'))))

    def do_call(self, e, env, fn, depth):
        n = e.get('cname')
        args = e.get('args', [])
        if n == '__builtin_expect':
            return self.ev(args[0], env, fn, depth)
        if n in LOADS:
            p = self.ev(args[0], env, fn, depth)
            if not isinstance(p, Ptr):
                raise Unsupported('load from non-pointer')
            self.access(p, LOADS[n], e)
            return Load(p.base, p.off, LOADS[n])
        if n in CMPEQ:
            a = self.ev(args[0], env, fn, depth)
            b = self.ev(args[1], env, fn, depth)
            if isinstance(a, Load) and isinstance(b, Load):
                if a.off != b.off or a.width != b.width or a.base == b.base:
                    self.errors.append(('vectors from different offsets / the same buffer compared', show(e)[:60], locline(e['loc'])))
                return Eq([(a.off, a.width)], a.width)
            raise Unsupported('cmpeq of non-loads')
        if n in ANDS:
            a = self.ev(args[0], env, fn, depth)
            b = self.ev(args[1], env, fn, depth)
            if isinstance(a, Eq) and isinstance(b, Eq):
                return Eq(a.ranges + b.ranges, a.lanes)
            raise Unsupported('and of non-compare results')
        if n in MOVEMASK:
            a = self.ev(args[0], env, fn, depth)
            if isinstance(a, Eq):
                bits = MOVEMASK[n]
                val = (1 << bits) - 1
                if bits == 32:
                    val = -1          # int result
                return Mask(val & 0xFFFFFFFF if bits == 32 else val, a.ranges, bits)
            raise Unsupported('movemask of non-compare')
        if n in ('memcmp', '__builtin_memcmp'):
            a = self.ev(args[0], env, fn, depth)
            b = self.ev(args[1], env, fn, depth)
            ln = self.ev(args[2], env, fn, depth)
            if isinstance(a, Ptr) and isinstance(b, Ptr) and isinstance(ln, int):
                if a.off != b.off:
                    self.errors.append(('memcmp at different offsets', show(e)[:60], locline(e['loc'])))
                self.access(a, ln, e)
                self.access(b, ln, e)
                self.cover([(a.off, ln)])
                return 0
            raise Unsupported('memcmp args')
        if n in ('__builtin_ctz',):
            return 0
        if n in ('_mm256_cmpgt_epi8', '_mm_cmpgt_epi8', '_mm_cmplt_epi8'):
            # an ordering compare of two loaded vectors does not take part in the equality skeleton; its use for the
            # sign of the result is judged by the unsigned-order rule.  Model it as a compare over the same lanes.
            a = self.ev(args[0], env, fn, depth)
            b = self.ev(args[1], env, fn, depth)
            if isinstance(a, Load) and isinstance(b, Load):
                return Eq([], a.width)
            raise Unsupported('ordering compare of non-loads')
        cid = e.get('cid')
        g = self.facts.by_id.get(cid)
        if g is not None and g.short == 'in_page_32':
            for a in args:
                self.ev(a, env, fn, depth)
            return int(self.in_page)
        if g is not None and g.blocks:
            vals = [self.ev(a, env, fn, depth) for a in args]
            guarded = False
            return self.call(g, vals, depth + 1)
        raise Unsupported('call %s' % n)


def run_in_page_scope(sk, fn, args):
    return sk.call(fn, args)
