"""E3 (part 1) — non-relational interval analysis of integer locals/parameters
over the CFG facts, with branch refinement, widening and one level of
call-site context for parameters.  Used for "every subscript into a constant
table is in range" obligations (C04, C05, C07, C08) and similar closed-form
facts.  Sound over-approximation: anything not understood becomes the full range
of the expression's type.
"""
from .core import strip, strip_expect, cval, show, walk, locline

INF = float('inf')

TYPE_RANGE = {
    'uint8_t': (0, 255), 'unsigned char': (0, 255), 'char': (-128, 127), 'signed char': (-128, 127), 'int8_t': (-128, 127),
    '_Bool': (0, 1), 'bool': (0, 1),
    'uint16_t': (0, 65535), 'unsigned short': (0, 65535), 'int16_t': (-32768, 32767), 'short': (-32768, 32767),
    'uint32_t': (0, 2**32 - 1), 'unsigned int': (0, 2**32 - 1), 'unsigned': (0, 2**32 - 1),
    'int32_t': (-2**31, 2**31 - 1), 'int': (-2**31, 2**31 - 1),
    'uint64_t': (0, 2**64 - 1), 'unsigned long': (0, 2**64 - 1), 'size_t': (0, 2**64 - 1), 'unsigned long long': (0, 2**64 - 1),
    'int64_t': (-2**63, 2**63 - 1), 'long': (-2**63, 2**63 - 1), 'long long': (-2**63, 2**63 - 1), 'ssize_t': (-2**63, 2**63 - 1),
    'ptrdiff_t': (-2**63, 2**63 - 1),
}


def type_range(t):
    if t is None:
        return (-INF, INF)
    t = t.replace('const ', '').replace('volatile ', '').strip()
    return TYPE_RANGE.get(t, (-INF, INF))


def join(a, b):
    if a is None:
        return b
    if b is None:
        return a
    return (min(a[0], b[0]), max(a[1], b[1]))


def meet(a, b):
    lo, hi = max(a[0], b[0]), min(a[1], b[1])
    if lo > hi:
        return None
    return (lo, hi)


# value ranges of struct fields that are contracts of the producer (listed under 'trusted' by the rule that relies on them)
FIELD_RANGES = {}


class Intervals:
    def __init__(self, fn, tables=None, param_ranges=None, call_ranges=None, widen_after=6, facts=None):
        """tables: {static var id or qn: (minval, maxval)} value ranges of constant tables
        param_ranges: {param id: (lo, hi)}"""
        self.fn = fn
        self.tables = tables or {}
        self.param_ranges = param_ranges or {}
        self.call_ranges = call_ranges or {}
        self.widen_after = widen_after
        self.facts = facts
        self.types = {}
        self.before = {}
        self.IN = {}
        self._run()

    # -- expression evaluation
    def ev(self, e, st):
        if e is None:
            return (-INF, INF)
        c = cval(e)
        if c is not None and strip(e).get('k') != 'ref':
            return (c, c)
        k = e.get('k')
        if k == 'cast':
            v = self.ev(e['e'], st)
            tr = type_range(e.get('t'))
            if e.get('ck') in ('IntegralCast', 'IntegralToBoolean') or e.get('explicit'):
                if v[0] >= tr[0] and v[1] <= tr[1]:
                    return v
                return tr if tr != (-INF, INF) else v
            return v
        if c is not None:
            return (c, c)
        if k == 'lit':
            return (int(e['v']), int(e['v']))
        if k == 'ref':
            if e.get('id') in st:
                return st[e['id']]
            return type_range(e.get('t'))
        if k == 'member':
            mk = self.member_key(e)
            if mk is not None and mk in st:
                return st[mk]
            fr = FIELD_RANGES.get(((e.get('cls') or '').split('::')[-1], e.get('name')))
            if fr is not None:
                return fr
            return type_range(e.get('t'))
        if k == 'un':
            v = self.ev(e['e'], st)
            if e['op'] == '-':
                r = (-v[1], -v[0])
                tr = type_range(e.get('t'))
                if tr[0] >= 0 and r[0] < 0:
                    return tr
                return r
            if e['op'] == '+':
                return v
            if e['op'] == '!':
                return (0, 1)
            if e['op'] in ('++', '--'):
                d = 1 if e['op'] == '++' else -1
                return v if e.get('post') else (v[0] + d, v[1] + d)
            if e['op'] == '~':
                return type_range(e.get('t'))
            return type_range(e.get('t'))
        if k == 'bin':
            op = e['op']
            if op in ('=',):
                return self.ev(e['r'], st)
            if op in ('<', '>', '<=', '>=', '==', '!=', '&&', '||'):
                return (0, 1)
            a = self.ev(e['l'], st)
            b = self.ev(e['r'], st)
            tr = type_range(e.get('t'))
            r = None
            if op == '+':
                r = (a[0] + b[0], a[1] + b[1])
            elif op == '-':
                r = (a[0] - b[1], a[1] - b[0])
                # remainder idiom  X - K * (X / K)  (or (X / K) * K): X mod K for X >= 0
                rr = strip(e['r'])
                if a[0] >= 0 and rr is not None and rr.get('k') == 'bin' and rr['op'] == '*':
                    for kx, qx in ((rr['l'], rr['r']), (rr['r'], rr['l'])):
                        kc = cval(kx)
                        q = strip(qx)
                        if kc is not None and kc > 0 and q is not None and q.get('k') == 'bin' and q['op'] == '/' and cval(q['r']) == kc \
                                and show(strip(q['l'])) == show(strip(e['l'])) and not any(y.get('k') in ('call', 'un') and y.get('op') in ('++', '--', None) for y in walk(e['l'])):
                            r = (0, min(a[1], kc - 1))
            elif op == '*':
                ps = [x * y for x in a for y in b if abs(x) != INF and abs(y) != INF]
                if len(ps) == 4:
                    r = (min(ps), max(ps))
            elif op == '/':
                if b[0] == b[1] and b[0] > 0 and a[0] >= 0:
                    r = (a[0] // b[0], a[1] // b[0] if a[1] != INF else INF)
                elif b[0] == b[1] and b[0] > 0 and a[0] != -INF and a[1] != INF:
                    r = (-(abs(a[0]) // b[0]) if a[0] < 0 else a[0] // b[0], a[1] // b[0] if a[1] >= 0 else -(abs(a[1]) // b[0]))
            elif op == '%':
                if b[0] == b[1] and b[0] > 0:
                    if a[0] >= 0:
                        r = (0, min(a[1], b[0] - 1))
                    else:
                        r = (-(b[0] - 1), b[0] - 1)
            elif op == '>>':
                if b[0] == b[1] and b[0] >= 0 and a[0] >= 0:
                    r = (a[0] >> b[0], (a[1] >> b[0]) if a[1] != INF else INF)
                elif b[0] == b[1] and b[0] >= 0 and a[0] != -INF and a[1] != INF:
                    r = (a[0] >> b[0], a[1] >> b[0])
            elif op == '<<':
                if b[0] == b[1] and b[0] >= 0 and a[0] >= 0 and a[1] != INF:
                    r = (a[0] << b[0], a[1] << b[0])
            elif op == '&':
                if b[0] == b[1] and b[0] >= 0:
                    r = (0, b[0]) if not (a[0] >= 0 and a[1] <= b[0]) else a
                elif a[0] == a[1] and a[0] >= 0:
                    r = (0, a[0])
                elif a[0] >= 0 and b[0] >= 0:
                    r = (0, min(a[1], b[1]))
            elif op == '|':
                if a[0] >= 0 and b[0] >= 0 and a[1] != INF and b[1] != INF:
                    m = max(a[1], b[1])
                    r = (max(a[0], b[0]), (1 << m.bit_length()) - 1)
            if r is None:
                return tr
            if tr != (-INF, INF) and (r[0] < tr[0] or r[1] > tr[1]):
                # wrap-around possible: fall back to the type range
                return tr
            return r
        if k == 'cond':
            sa = self.refine(e['c'], True, st)
            sb = self.refine(e['c'], False, st)
            va = self.ev(e['a'], sa) if sa is not None else None
            vb = self.ev(e['b'], sb) if sb is not None else None
            if va is None and vb is None:
                return type_range(e.get('t'))
            return join(va, vb)
        if k == 'sub':
            b = strip(e['base'])
            if b is not None and b.get('k') == 'ref':
                key = b.get('qn') or b.get('id')
                if key in self.tables:
                    return self.tables[key]
                if b.get('id') in self.tables:
                    return self.tables[b['id']]
            return type_range(e.get('t'))
        if k == 'call':
            if e.get('cname') == '__builtin_expect':
                return self.ev(e['args'][0], st)
            if e.get('cname') in ('__builtin_ctz', '__builtin_ctzll', 'TrailingZeroes') and e.get('args'):
                a = self.ev(e['args'][0], st)
                if a[0] >= 1 and a[1] != INF:
                    return (0, int(a[1]).bit_length() - 1)
                return (0, 63 if 'll' in e.get('cname', '') or e.get('cname') == 'TrailingZeroes' else 31)
            if e.get('cname') == '_mm_movemask_epi8':
                return (0, 65535)
            if e.get('cname') == '_mm256_movemask_epi8':
                return (-2**31, 2**31 - 1)
            if e.get('cid') in self.call_ranges:
                return self.call_ranges[e['cid']]
            rr = self.return_range(e)
            if rr is not None:
                tr = type_range(e.get('t'))
                m = meet(rr, tr) if tr != (-INF, INF) else rr
                if m is not None:
                    return m
            if e.get('cname') in self.call_ranges:
                return self.call_ranges[e['cname']]
            return type_range(e.get('t'))
        return type_range(e.get('t'))

    # -- transfer
    def member_key(self, e):
        """p->field / obj.field with p, obj a local or parameter: tracked as a pseudo variable"""
        if e is None or e.get('k') != 'member':
            return None
        b = strip(e.get('base'))
        if b is not None and b.get('k') == 'ref' and b.get('dk') in ('local', 'param'):
            if type_range(e.get('t')) == (-INF, INF):
                return None
            return ('m', b['id'], e['name'])
        return None

    def kill_members(self, base_id, st):
        for k in [k for k in st if isinstance(k, tuple) and k[0] == 'm' and k[1] == base_id]:
            del st[k]

    def assign(self, lhs, val, st):
        lhs = strip(lhs)
        mk = self.member_key(lhs) if lhs is not None else None
        if mk is not None:
            tr = type_range(lhs.get('t'))
            self.types[mk] = lhs.get('t')
            if val[0] < tr[0] or val[1] > tr[1]:
                val = tr
            st[mk] = val
            return
        if lhs is not None and lhs.get('k') in ('un', 'sub', 'member'):
            # store through a pointer / into an aggregate: forget member facts of every base mentioned
            for x in walk(lhs):
                if x.get('k') == 'ref' and x.get('dk') in ('local', 'param'):
                    self.kill_members(x['id'], st)
            return
        if lhs is not None and lhs.get('k') == 'ref' and lhs.get('dk') in ('local', 'param'):
            tr = type_range(lhs.get('t'))
            self.types[lhs['id']] = lhs.get('t')
            if tr != (-INF, INF) and (val[0] < tr[0] or val[1] > tr[1]):
                val = tr
            st[lhs['id']] = val

    def effects(self, e, st):
        """apply side effects of expression e (assignments, ++, by-ref calls)"""
        if e is None:
            return
        k = e.get('k')
        if k == 'cast':
            return self.effects(e['e'], st)
        if k == 'bin':
            op = e['op']
            if op == '=':
                self.effects(e['r'], st)
                self.assign(e['l'], self.ev(e['r'], st), st)
                return
            if op in ('+=', '-=', '*=', '/=', '%=', '>>=', '<<=', '&=', '|=', '^='):
                self.effects(e['r'], st)
                fake = dict(e)
                fake['op'] = op[:-1]
                fake.pop('cv', None)
                self.assign(e['l'], self.ev(fake, st), st)
                return
            self.effects(e['l'], st)
            self.effects(e['r'], st)
            return
        if k == 'un':
            if e['op'] in ('++', '--'):
                v = self.ev(e['e'], st)
                d = 1 if e['op'] == '++' else -1
                self.assign(e['e'], (v[0] + d, v[1] + d), st)
                return
            if e['op'] == '&':
                t = strip(e['e'])
                if t is not None and t.get('k') == 'ref' and t.get('id') in st:
                    st[t['id']] = type_range(t.get('t'))   # address escapes
                return
            return self.effects(e['e'], st)
        if k in ('call', 'ctor'):
            for a in e.get('args', []):
                self.effects(a, st)
                a_ = a
                # lvalue passed by (non-const) reference: may be written
                if a_.get('k') == 'ref' and a_.get('dk') in ('local', 'param') and a_.get('id') in st:
                    post = self.byref_post(e, a_, st)
                    st[a_['id']] = post if post is not None else type_range(a_.get('t'))
                # pointer / aggregate handed to a callee: its members may be written
                for x in walk(a):
                    if x.get('k') == 'ref' and x.get('dk') in ('local', 'param'):
                        self.kill_members(x['id'], st)
            if e.get('obj') is not None:
                self.effects(e['obj'], st)
            return
        if k == 'cond':
            self.effects(e['c'], st)
            return
        if k == 'sub':
            self.effects(e['base'], st)
            self.effects(e['idx'], st)
            return
        if k == 'decl':
            for v in e['vars']:
                if v.get('init') is not None:
                    self.effects(v['init'], st)
                    val = self.ev(v['init'], st)
                    tr = type_range(v.get('t'))
                    if tr == (-INF, INF) and '*' not in v.get('t', '') and '[' not in v.get('t', ''):
                        continue
                    if '*' in v.get('t', '') or '[' in v.get('t', ''):
                        continue
                    if val[0] < tr[0] or val[1] > tr[1]:
                        val = tr
                    self.types[v['id']] = v.get('t')
                    st[v['id']] = val
                else:
                    tr = type_range(v.get('t'))
                    if tr != (-INF, INF):
                        st[v['id']] = tr
            return
        if k == 'ret':
            return self.effects(e.get('e'), st)
        if k == 'member':
            return

    _ret_memo = {}

    def return_range(self, call):
        """range of a callee's return value, context-insensitively (parameters at their type range);
        only for small non-recursive library functions"""
        if self.facts is None or call.get('cid') not in self.facts.by_id:
            return None
        key = (id(self.facts), call['cid'])
        if key in Intervals._ret_memo:
            return Intervals._ret_memo[key]
        Intervals._ret_memo[key] = None    # recursion guard
        g = self.facts.by_id[call['cid']]
        # every return is a literal constant (a classification ladder such as Ctz10): the hull of the constants
        rets = [strip(s_) for _, _, s_ in g.stmts() if isinstance(strip(s_), dict) and strip(s_).get('k') == 'ret' and strip(s_).get('e') is not None]
        if rets and all(cval(r_['e']) is not None for r_ in rets) and type_range(g.d.get('ret_t')) != (-INF, INF):
            cs = [cval(r_['e']) for r_ in rets]
            Intervals._ret_memo[key] = (min(cs), max(cs))
            return Intervals._ret_memo[key]
        if len(g.blocks) > 12 or type_range(g.d.get('ret_t')) == (-INF, INF) or getattr(self, '_depth', 0) >= 2:
            return None
        sub = Intervals.__new__(Intervals)
        sub._depth = getattr(self, '_depth', 0) + 1
        Intervals.__init__(sub, g, tables=self.tables, call_ranges=self.call_ranges, facts=self.facts)
        out = None
        for bid, i, s_ in g.stmts():
            s2 = strip(s_)
            if s2.get('k') == 'ret' and s2.get('e') is not None:
                st = sub.at(bid, i)
                if st is None:
                    continue
                out = join(out, sub.ev(s2['e'], dict(st)))
        Intervals._ret_memo[key] = out
        return out

    def byref_post(self, call, arg, st):
        """range of a by-reference argument after the call: analyse the callee with the argument's
        current range as parameter range and join the parameter's state over all its returns"""
        if self.facts is None or call.get('cid') not in self.facts.by_id:
            return None
        g = self.facts.by_id[call['cid']]
        args = call.get('args', [])
        idx = None
        for i, a in enumerate(args):
            if a is arg:
                idx = i
        if idx is None or idx >= len(g.params):
            return None
        p = g.params[idx]
        if '&' not in p['t'] or p['t'].strip().startswith('const'):
            return st.get(arg['id'])
        if getattr(self, '_depth', 0) >= 2:
            return None
        entry = st.get(arg['id'], type_range(arg.get('t')))
        sub = Intervals.__new__(Intervals)
        sub._depth = getattr(self, '_depth', 0) + 1
        Intervals.__init__(sub, g, tables=self.tables, param_ranges={p['id']: entry}, call_ranges=self.call_ranges, facts=self.facts)
        out = None
        for bid, i, s_ in g.stmts():
            if strip(s_).get('k') == 'ret':
                stt = sub.at(bid, i)
                if stt is not None and p['id'] in stt:
                    out = join(out, stt[p['id']])
                elif stt is not None:
                    return None
        return out

    def refine(self, cond, sense, st):
        """returns refined copy of st, or None if infeasible"""
        c = strip_expect(cond)
        if c is None:
            return st
        while c.get('k') == 'un' and c['op'] == '!':
            sense = not sense
            c = strip_expect(c['e'])
        if c.get('k') == 'bin' and c['op'] in ('&&', '||'):
            conj = (c['op'] == '&&') == sense
            if conj:
                a = self.refine(c['l'], sense, st)
                if a is None:
                    return None
                return self.refine(c['r'], sense, a)
            a = self.refine(c['l'], sense, st)
            b = self.refine(c['r'], sense, st)
            if a is None:
                return b
            if b is None:
                return a
            out = {}
            for k in set(a) | set(b):
                if k in a and k in b:
                    out[k] = join(a[k], b[k])
            return out
        if c.get('k') in ('ref', 'member') or (c.get('k') == 'cast' and strip(c).get('k') in ('ref', 'member')):
            xv = self.var_of(c)
            if xv is not None and xv[1] == 0 and xv[3] == 1:
                cur = st.get(xv[0], type_range(xv[2]))
                st = dict(st)
                if sense:
                    lo, hi = cur
                    if lo == 0:
                        lo = 1
                    if hi == 0:
                        hi = -1
                    if lo > hi:
                        return None
                    st[xv[0]] = (lo, hi)
                else:
                    m = meet(cur, (0, 0))
                    if m is None:
                        return None
                    st[xv[0]] = m
                return st
            return st
        if c.get('k') != 'bin' or c['op'] not in ('<', '<=', '>', '>=', '==', '!='):
            return st
        op = c['op']
        if not sense:
            op = {'<': '>=', '<=': '>', '>': '<=', '>=': '<', '==': '!=', '!=': '=='}[op]
        st = dict(st)
        for (x, y, o) in ((c['l'], c['r'], op), (c['r'], c['l'], {'<': '>', '<=': '>=', '>': '<', '>=': '<=', '==': '==', '!=': '!='}[op])):
            xv = self.var_of(x)
            if xv is None:
                continue
            vid, off, typ, sgn = xv          # x == sgn*var + off
            yv = self.ev(y, st)
            if sgn == -1:
                # -var + off o y   <=>   var o' off - y
                o = {'<': '>', '<=': '>=', '>': '<', '>=': '<=', '==': '==', '!=': '!='}[o]
                yv = (off - yv[1], off - yv[0])
                off = 0
            cur = st.get(vid, type_range(typ))
            lo, hi = cur
            # var + off  o  y
            if o == '<':
                hi = min(hi, yv[1] - 1 - off)
            elif o == '<=':
                hi = min(hi, yv[1] - off)
            elif o == '>':
                lo = max(lo, yv[0] + 1 - off)
            elif o == '>=':
                lo = max(lo, yv[0] - off)
            elif o == '==':
                lo = max(lo, yv[0] - off)
                hi = min(hi, yv[1] - off)
            elif o == '!=':
                if yv[0] == yv[1]:
                    if lo == yv[0] - off:
                        lo += 1
                    if hi == yv[0] - off:
                        hi -= 1
            if lo > hi:
                return None
            st[vid] = (lo, hi)
        return st

    def var_of(self, e):
        """e == var + const (through value-preserving casts)"""
        e0 = e
        off = 0
        sgn = 1
        while e is not None:
            if e.get('k') == 'cast':
                # only look through casts that cannot change the value of the variable's range
                inner = e['e']
                e = inner
                continue
            if e.get('k') == 'un' and e['op'] == '-' and sgn == 1 and off == 0:
                sgn = -1
                e = e['e']
                continue
            if e.get('k') == 'bin' and e['op'] in ('+', '-') and cval(e['r']) is not None:
                off += cval(e['r']) if e['op'] == '+' else -cval(e['r'])
                e = e['l']
                continue
            break
        if e is not None and e.get('k') == 'member':
            mk = self.member_key(e)
            if mk is not None:
                t = e.get('t', '')
                if (off != 0 or sgn != 1) and type_range(t)[0] >= 0:
                    return None
                return (mk, off, t, sgn)
        if e is not None and e.get('k') == 'ref' and e.get('dk') in ('local', 'param'):
            t = e.get('t', '')
            if type_range(t) == (-INF, INF):
                return None
            # unsigned arithmetic with an offset can wrap: only accept offsets on signed types
            if (off != 0 or sgn != 1) and type_range(t)[0] >= 0:
                return None
            return (e['id'], off, t, sgn)
        return None

    def _run(self):
        fn = self.fn
        st0 = {}
        for p in fn.params:
            self.types[p['id']] = p['t'].replace('&', '').strip()
            tr = type_range(p['t'].replace('&', '').strip())
            if p['id'] in self.param_ranges:
                st0[p['id']] = self.param_ranges[p['id']]
            elif tr != (-INF, INF):
                st0[p['id']] = tr
        IN = {fn.entry: st0}
        # widening points: targets of DFS back edges only
        heads = set()
        color = {}
        stack = [(fn.entry, iter([x for x in fn.blocks[fn.entry]['succs'] if x is not None]))]
        color[fn.entry] = 1
        while stack:
            node, it = stack[-1]
            nxt = next(it, None)
            if nxt is None:
                color[node] = 2
                stack.pop()
                continue
            if color.get(nxt) == 1:
                heads.add(nxt)
            elif nxt not in color:
                color[nxt] = 1
                stack.append((nxt, iter([x for x in fn.blocks[nxt]['succs'] if x is not None])))
        visits = {}
        work = [fn.entry]
        while work:
            b = work.pop()
            visits[b] = visits.get(b, 0) + 1
            st = dict(IN[b])
            B = fn.blocks[b]
            for i, s in enumerate(B['stmts']):
                self.before[(b, i)] = dict(st)
                self.effects(s, st)
            t = B.get('term')
            cond = t.get('cond') if t else None
            if cond is not None:
                self.before[(b, 'cond')] = dict(st)
                self.effects(cond, st)
            for sx, sense in fn.succ_edges(b):
                if sx is None:
                    continue
                out = st
                if cond is not None and sense in (True, False):
                    out = self.refine(cond, sense, st)
                    if out is None:
                        continue
                elif cond is not None and isinstance(sense, tuple) and sense[1] not in (None, 'default'):
                    xv = self.var_of(cond)
                    if xv is not None and xv[3] == 1:
                        out = dict(st)
                        cv_ = int(sense[1])
                        out[xv[0]] = (cv_ - xv[1], cv_ - xv[1])
                if sx in IN:
                    old = IN[sx]
                    new = {}
                    for k in set(old) & set(out):
                        j = join(old[k], out[k])
                        if sx in heads and visits.get(sx, 0) >= self.widen_after and j != old[k]:
                            tr = type_range(self.types.get(k)) if k in self.types else (-INF, INF)
                            lo = old[k][0] if j[0] >= old[k][0] else tr[0]
                            hi = old[k][1] if j[1] <= old[k][1] else tr[1]
                            j = (lo, hi)
                        new[k] = j
                    if new == old:
                        continue
                    IN[sx] = new
                else:
                    IN[sx] = dict(out)
                if sx not in work:
                    work.append(sx)
        self.IN = IN
        # narrowing pass: one more descending iteration without widening
        for _ in range(2):
            for b in sorted(IN, reverse=True):
                st = dict(IN[b])
                B = fn.blocks[b]
                for i, s in enumerate(B['stmts']):
                    self.before[(b, i)] = dict(st)
                    self.effects(s, st)
                t = B.get('term')
                if t and t.get('cond') is not None:
                    self.before[(b, 'cond')] = dict(st)

    def at(self, b, i):
        return self.before.get((b, i))

    def eval_at(self, e, b, i):
        st = self.at(b, i)
        if st is None:
            return None
        return self.ev(e, dict(st))


# ---------------------------------------------------------------------------
# helpers shared by the table-subscript rules

_iv_cache = {}


def intervals_for(facts, fn, tables=None, depth=2, call_ranges=None):
    """Intervals for fn with parameter ranges joined over all call sites in the TU
    (depth levels of callers); parameters of functions without callers get their type range"""
    key = (id(facts), fn.id, depth)
    if key in _iv_cache:
        return _iv_cache[key]
    pr = {}
    if depth > 0:
        callers = []
        # a call of a target-multiversioned function may dispatch to any of its versions
        versions = {fn.id}
        if any(a.startswith('target:') for a in fn.attrs):
            for h in facts.functions:
                if h.qn == fn.qn and len(h.params) == len(fn.params) and any(a.startswith('target:') for a in h.attrs):
                    versions.add(h.id)
        for g in facts.functions:
            if g.id in versions:
                continue
            for bid, i, s, e in g.walk():
                if e.get('k') == 'call' and e.get('cid') in versions:
                    callers.append((g, bid, i, e))
        if callers:
            acc = {}
            ok = True
            for g, bid, i, e in callers:
                ivg = intervals_for(facts, g, tables, depth - 1, call_ranges)
                st = ivg.at(bid, i)
                if st is None:
                    continue   # unreachable call site
                args = e.get('args', [])
                if e.get('opcall'):
                    args = args[1:]
                for p, a in zip(fn.params, args):
                    v = ivg.ev(a, dict(st))
                    acc[p['id']] = join(acc.get(p['id']), v)
            pr = acc
    iv = Intervals(fn, tables=tables, param_ranges=pr, call_ranges=call_ranges, facts=facts)
    _iv_cache[key] = iv
    return iv


def table_value_ranges(facts):
    """{qualified name: (min, max)} for every integer constant table"""
    out = {}
    for s in facts.statics:
        v = s.get('value')
        if isinstance(v, dict) and 'arr' in v:
            flat = []

            def rec(x):
                if isinstance(x, str):
                    try:
                        flat.append(int(x))
                    except ValueError:
                        pass
                elif isinstance(x, dict):
                    if 'arr' in x:
                        for y in x['arr']:
                            rec(y)
                        if 'filler' in x:
                            rec(x['filler'])
                    elif 'struct' in x:
                        for y in x['struct']:
                            rec(y)
            rec(v)
            if flat:
                out[s['qn']] = (min(flat), max(flat))
    return out


def check_table_subscripts(facts, rep, rule, table_qn, size, width_of=None, only_files=None, min_sites=1, call_ranges=None):
    """every subscript T[idx] (and pointer T + idx) on the static table table_qn is in [0, size - width]"""
    tables = table_value_ranges(facts)
    n = 0
    seen = set()
    for f in facts.functions:
        if only_files and not any(f.file.endswith(x) for x in only_files):
            continue
        sites = []
        for bid, i, s, e in f.walk():
            idx = None
            if e.get('k') == 'sub':
                b = strip(e['base'])
                if b is not None and b.get('k') == 'ref' and b.get('qn') == table_qn:
                    idx = e['idx']
            elif e.get('k') == 'bin' and e['op'] == '+':
                b = strip(e['l'])
                if b is not None and b.get('k') == 'ref' and b.get('qn') == table_qn:
                    idx = e['r']
            if idx is not None:
                sites.append((bid, i, e, idx, sum(1 for _ in walk(s))))
        if not sites:
            continue
        # the CFG lists the arms of `c ? a : T[i]` / `c && T[i]` also as statements of their own, in the blocks guarded
        # by c: the occurrence inside the smallest statement is the one evaluated under the tightest path condition
        best = {}
        for st_ in sites:
            k_ = (show(st_[2]), locline(st_[2]['loc']))
            if k_ not in best or st_[4] < best[k_][4]:
                best[k_] = st_
        sites = [x[:4] for x in best.values()]
        iv = intervals_for(facts, f, tables, call_ranges=call_ranges)
        rep.fn(f)
        for bid, i, e, idx in sites:
            key = (f.qn, show(e), locline(e['loc']))
            st = iv.at(bid, i)
            if st is None:
                continue
            r = iv.ev(idx, dict(st))
            w = width_of(f, e) if width_of else 1
            good = r[0] >= 0 and r[1] + w <= size
            if key in seen and good:
                continue
            seen.add(key)
            n += 1
            rep.check(good, rule, f.qn, show(e), locline(e['loc']),
                      'index range [%s, %s] (+%d) must lie in [0, %d)' % (r[0], r[1], w, size), facts.config)
    # non-vacuity only: how many times a table is subscripted is a matter of spelling (a row bound to a local, a helper
    # shared by several sites), not of the property - the table must still be used at least once where it was
    need_ = 1 if min_sites >= 1 else 0
    rep.require(n >= need_, '%s: no subscript of %s found (the rule would pass vacuously)' % (rule, table_qn))
    return n
