"""E1 — status discipline by fail-world exploration.

For each call site of an event that can fail (computed from the handler's own
return statements) the engine explores every CFG path of the caller that is
consistent with "this call returned false" (or, for callees that report through
the error field, "the error field is non-zero") and requires that the failure
is turned into an error signal (error-field store of a non-zero value, or a
false return that the caller in turn handles) before
  * any further event is emitted, or
  * the function returns a value that does not carry the failure.
Summaries (set of (signalled?, return-class) outcomes) are propagated bottom-up
through the parser family. Path-insensitive apart from the tracked facts.
"""
from .core import strip, strip_expect, cval, show, walk, locline, is_this_member

UNSIG, SIG = 'unsignalled', 'signalled'


def _lockey(loc):
    ps = loc.rsplit(':', 2)
    try:
        return (int(ps[1]), int(ps[2]))
    except (ValueError, IndexError):
        return (0, 0)


def can_return_false(fn, facts, memo):
    """does some return of bool function fn yield something other than literal
    true?  transitive through `return g(...)`"""
    if fn.id in memo:
        return memo[fn.id]
    memo[fn.id] = False  # recursion guard: optimistic, fixed below
    res = False
    for bid, i, s in fn.stmts():
        if not isinstance(s, dict) or s.get('k') != 'ret':
            continue
        v = strip(s.get('e'))
        if v is None:
            continue
        c = cval(s.get('e'))
        if c is not None:
            if c == 0:
                res = True
            continue
        if v.get('k') == 'call' and v.get('cid') in facts.by_id:
            if can_return_false(facts.by_id[v['cid']], facts, memo):
                res = True
            continue
        res = True
    memo[fn.id] = res
    return res


class FamilyAnalysis:
    def __init__(self, facts, report, prop, family, handler_classes, err_field='err_'):
        self.facts = facts
        self.report = report
        self.prop = prop
        self.family = {f.id: f for f in family}
        self.handlers = handler_classes  # set of class qn
        self.skip_handlers = set()
        self.err_field = err_field
        self.crf_memo = {}
        self.summary = {}     # fn id -> set of (status, retclass)
        self.emits = {}       # fn id -> bool: emits events (transitively)
        self.sites = 0
        self.setters = {}     # fn id -> param index stored into err field

    # -- classification helpers
    def handler_call(self, e):
        return e.get('k') == 'call' and e.get('ccls') in self.handlers

    def is_skip_on_false(self, e):
        """Key event of a handler class that declares check_key_return: false
        means 'member not wanted, skip its value' (schema_handler.h)."""
        return self.handler_call(e) and e.get('cname') == 'Key' and e.get('ccls') in self.skip_handlers

    def compute_emits(self):
        for f in self.family.values():
            self.emits[f.id] = False
        changed = True
        while changed:
            changed = False
            for f in self.family.values():
                if self.emits[f.id]:
                    continue
                for bid, i, s, e in f.walk():
                    if self.handler_call(e) or (e.get('k') == 'call' and self.emits.get(e.get('cid'))):
                        self.emits[f.id] = True
                        changed = True
                        break

    def find_setters(self):
        for f in self.family.values():
            body = [s for _, _, s in f.stmts()]
            if len(body) == 1:
                s = strip(body[0])
                if s.get('k') == 'bin' and s['op'] == '=' and is_this_member(s['l'], self.err_field):
                    r = strip(s['r'])
                    if r.get('k') == 'ref' and r.get('dk') == 'param':
                        for idx, p in enumerate(f.params):
                            if p['id'] == r['id']:
                                self.setters[f.id] = idx

    def outcomes_of_call(self, e):
        """fail-world outcomes a call expression can produce: set of (status, retclass)"""
        if self.handler_call(e):
            fn = self.facts.by_id.get(e.get('cid'))
            sk = self.is_skip_on_false(e)
            if fn is None:
                return {(UNSIG, 'false', sk)} if e.get('t') == '_Bool' else set()
            if fn.d.get('ret_t') in ('_Bool', 'bool') and can_return_false(fn, self.facts, self.crf_memo):
                return {(UNSIG, 'false', sk)}
            return set()
        if e.get('k') == 'call' and e.get('cid') in self.family:
            return set(self.summary.get(e['cid'], set()))
        return set()

    # -- the exploration
    def analyse(self, f):
        """returns the set of outcomes of f and reports violations"""
        outs = set()
        # line-independent site identity: n-th textual occurrence of the same call in this function
        groups = {}
        for bid, i, s, e in f.walk():
            if e.get('k') == 'call':
                groups.setdefault(show(e), set()).add(_lockey(e['loc']))
        self._site = {}
        for k, locs in groups.items():
            for n, l in enumerate(sorted(locs)):
                self._site[(k, l)] = (n + 1, len(locs))
        for bid, i, s, e in f.walk():
            if e.get('k') != 'call':
                continue
            for (st, rc, sk) in sorted(self.outcomes_of_call(e)):
                self.sites += 1
                outs |= self.explore(f, bid, i, s, e, st, rc, sk)
        return outs

    def eval_cond(self, c, facts):
        c = strip_expect(c)
        if c is None:
            return None
        k = c.get('k')
        if k == 'un' and c['op'] == '!':
            v = self.eval_cond(c['e'], facts)
            return None if v is None else (not v)
        if k == 'call' and ('call', id(c)) in facts:
            return False
        if k == 'ref' and ('var0', c.get('id')) in facts:
            return False
        if k == 'member' and is_this_member(c, self.err_field):
            if ('errset',) in facts:
                return True
            return None
        if k == 'bin' and c['op'] in ('==', '!='):
            l, r = c['l'], c['r']
            for a, b in ((l, r), (r, l)):
                cv = cval(b)
                if cv is None:
                    continue
                av = self.eval_cond_val(a, facts)
                if av == 'zero':
                    res = (cv == 0)
                elif av == 'nonzero' and cv == 0:
                    res = False
                else:
                    continue
                return res if c['op'] == '==' else (not res)
        return None

    def learn(self, cond, sense, facts, status):
        """facts learnt by taking a branch edge: only about the error field"""
        probe = self.eval_cond(cond, set(facts) | {('errset',)})
        if ('errset',) not in facts and probe is not None:
            # the condition is decided by "error field non-zero"; if this edge is
            # the one taken in that case and the other case (field zero) would take
            # the other edge, the field is non-zero here
            probe0 = self.eval_cond_zero(cond)
            if probe == sense and probe0 is not None and probe0 != sense:
                f2 = set(facts)
                f2.add(('errset',))
                return f2, SIG
        return facts, status

    def eval_cond_zero(self, c):
        """truth of cond when the error field is zero (None if it does not only depend on it)"""
        c = strip_expect(c)
        if c is None:
            return None
        k = c.get('k')
        if k == 'un' and c['op'] == '!':
            v = self.eval_cond_zero(c['e'])
            return None if v is None else (not v)
        if k == 'member' and is_this_member(c, self.err_field):
            return False
        if k == 'bin' and c['op'] in ('==', '!='):
            for a, b in ((c['l'], c['r']), (c['r'], c['l'])):
                cv = cval(b)
                a_ = strip_expect(a)
                if cv is not None and a_ is not None and a_.get('k') == 'member' and is_this_member(a_, self.err_field):
                    res = (cv == 0)
                    return res if c['op'] == '==' else (not res)
        return None

    def eval_cond_val(self, a, facts):
        a = strip_expect(a)
        if a is None:
            return None
        if a.get('k') == 'member' and is_this_member(a, self.err_field) and ('errset',) in facts:
            return 'nonzero'
        if a.get('k') == 'ref' and ('var0', a.get('id')) in facts:
            return 'zero'
        if a.get('k') == 'call' and ('call', id(a)) in facts:
            return 'zero'
        return None

    def explore(self, f, bid, idx, stmt, call, status0, retclass, skip_world=False):
        """explore the fail world that starts right after `call` (located in
        top-level statement `stmt` of block bid)"""
        rep = self.report
        outs = set()
        facts0 = set()
        if retclass == 'false':
            facts0.add(('call', id(call)))
        if status0 == SIG:
            facts0.add(('errset',))
        origin = '%s at %s' % (show(call), locline(call['loc']))
        n, tot = self._site.get((show(call), _lockey(call['loc'])), (1, 1))
        cname = show(call) + (' [site %d of %d]' % (n, tot) if tot > 1 else '')

        def viol(kind, where, detail):
            rep.fail('E1.status', f.qn, '%s: %s' % (kind, cname), locline(call['loc']),
                     '%s (%s; fail-world of %s)' % (detail, where, origin), self.facts.config)

        seen = set()
        work = []

        def apply_stmt(s, facts, status, first):
            """returns (facts, status, stop) ; stop in (None,'viol','ret')"""
            s_ = strip(s)
            if s_ is None:
                return facts, status, None
            k = s_.get('k')
            # the statement that contains the originating call: consume the call result
            if first:
                if k == 'ret':
                    rv = strip_expect(s_.get('e'))
                    return facts, status, ('ret', s_)
                if k == 'bin' and s_['op'] == '=':
                    lhs = strip(s_['l'])
                    if lhs.get('k') == 'ref' and strip_expect(s_['r']) is call and retclass == 'false':
                        facts = set(facts)
                        facts.add(('var0', lhs['id']))
                    return facts, status, None
                if k == 'decl':
                    for v in s_['vars']:
                        if v.get('init') is not None and strip_expect(v['init']) is call and retclass == 'false':
                            facts = set(facts)
                            facts.add(('var0', v['id']))
                    return facts, status, None
                return facts, status, None
            if k == 'ret':
                return facts, status, ('ret', s_)
            # any further event or event-emitting family call?
            for e in walk(s_):
                if e.get('k') != 'call':
                    continue
                if e.get('cid') in self.setters:
                    a = e['args'][self.setters[e['cid']]]
                    c = cval(a)
                    facts = set(facts)
                    if c is not None and c != 0:
                        facts.add(('errset',))
                        status = SIG
                    else:
                        facts.discard(('errset',))
                    continue
                if skip_world and e.get('cname') in ('SkipOne',) :
                    return facts, status, ('clean', e)
                if self.handler_call(e) or self.emits.get(e.get('cid')):
                    return facts, status, ('event', e)
            if k == 'bin' and s_['op'] == '=':
                lhs = strip(s_['l'])
                if is_this_member(lhs, self.err_field):
                    c = cval(s_['r'])
                    facts = set(facts)
                    if c is not None and c != 0:
                        facts.add(('errset',))
                        status = SIG
                    elif c == 0:
                        facts.discard(('errset',))
                        status = UNSIG
                    else:
                        # unknown value stored: cannot rely on it
                        facts.discard(('errset',))
                elif lhs.get('k') == 'ref':
                    facts = set(f_ for f_ in facts if f_ != ('var0', lhs['id']))
            return facts, status, None

        def ret_class(rs, facts):
            v = rs.get('e')
            if v is None:
                return 'void'
            c = cval(v)
            if c is not None:
                return 'false' if c == 0 else 'true'
            sv = strip_expect(v)
            if sv is call:
                return 'false' if retclass == 'false' else 'unknown'
            if sv.get('k') == 'ref' and ('var0', sv.get('id')) in facts:
                return 'false'
            for e in walk(v):
                if e.get('k') == 'member' and is_this_member(e, self.err_field):
                    return 'carries_err'
            return 'unknown'

        def at_exit(rs, facts, status):
            rc = ret_class(rs, facts) if rs is not None else 'void'
            if skip_world and status == UNSIG and rc != 'false':
                viol('skip-not-performed', locline(rs['loc']) if rs else f.loc,
                     'function returns before the unwanted member value was skipped')
                return
            if status == SIG:
                outs.add((SIG, rc if rc in ('false',) else 'other', False))
                rep.ok('E1.status', '%s: %s -> error field set, returns %s' % (f.qn, cname, rc), locline(call['loc']))
            elif rc == 'false':
                outs.add((UNSIG, 'false', skip_world))
                rep.ok('E1.status', '%s: %s -> propagated by false return' % (f.qn, cname), locline(call['loc']))
            else:
                viol('failure-dropped', locline(rs['loc']) if rs else f.loc,
                     'function returns %s without signalling the failed event' % rc)

        # start: remaining statements of the origin block
        def run_block(b, start_i, facts, status, first_stmt):
            B = f.blocks[b]
            stmts = B['stmts']
            i = start_i
            while i < len(stmts):
                facts, status, stop = apply_stmt(stmts[i], facts, status, first_stmt and i == start_i)
                if stop:
                    if stop[0] == 'ret':
                        at_exit(stop[1], facts, status)
                    elif stop[0] == 'event':
                        viol('continues-after-failure', locline(stop[1]['loc']),
                             'reaches %s while the failure is %s' % (show(stop[1]), status))
                    elif stop[0] == 'clean':
                        rep.ok('E1.status', '%s: %s -> value skipped by %s' % (f.qn, cname, show(stop[1])), locline(call['loc']))
                    return
                i += 1
            # terminator
            t = B.get('term')
            succs = B['succs']
            if not [s for s in succs if s is not None]:
                at_exit(None, facts, status)
                return
            if t and t.get('cond') is not None and t['cls'] != 'SwitchStmt' and len(succs) == 2:
                cond = t['cond']
                # events inside the condition (when it is not the originating statement)
                if not (first_stmt and start_i == 'cond'):
                    for e in walk(cond):
                        if e.get('k') == 'call' and (self.handler_call(e) or self.emits.get(e.get('cid'))):
                            if skip_world and e.get('cname') == 'SkipOne':
                                continue
                            viol('continues-after-failure', locline(e['loc']),
                                 'reaches %s while the failure is %s' % (show(e), status))
                            return
                        if skip_world and e.get('k') == 'call' and e.get('cname') == 'SkipOne':
                            rep.ok('E1.status', '%s: %s -> value skipped by %s' % (f.qn, cname, show(e)), locline(call['loc']))
                            return
                v = self.eval_cond(cond, facts)
                if (v is None or v is True) and succs[0] is not None:
                    f2, s2 = self.learn(cond, True, facts, status)
                    push(succs[0], f2, s2)
                if (v is None or v is False) and succs[1] is not None:
                    f2, s2 = self.learn(cond, False, facts, status)
                    push(succs[1], f2, s2)
                return
            if t and t.get('cond') is not None:
                for e in walk(t['cond']):
                    if e.get('k') == 'call' and (self.handler_call(e) or self.emits.get(e.get('cid'))):
                        viol('continues-after-failure', locline(e['loc']),
                             'reaches %s while the failure is %s' % (show(e), status))
                        return
            for s in succs:
                if s is not None:
                    push(s, facts, status)

        def push(b, facts, status):
            if b == f.exit:
                at_exit(None, facts, status)
                return
            key = (b, frozenset(x for x in facts), status)
            if key in seen:
                return
            seen.add(key)
            work.append((b, set(facts), status))

        # locate where the call sits
        if idx == 'cond':
            # the originating call is (part of) the branch condition of block bid
            B = f.blocks[bid]
            succs = B['succs']
            t = B['term']
            if t['cls'] == 'SwitchStmt' or len(succs) != 2:
                for s in succs:
                    if s is not None:
                        push(s, facts0, status0)
            else:
                v = self.eval_cond(t['cond'], facts0)
                if v is None or v is True:
                    if succs[0] is not None:
                        push(succs[0], facts0, status0)
                if v is None or v is False:
                    if succs[1] is not None:
                        push(succs[1], facts0, status0)
        else:
            run_block(bid, idx, facts0, status0, True)
        while work:
            b, facts, status = work.pop()
            run_block(b, 0, facts, status, False)
        return outs

    def run(self, order):
        """order: family functions, callees first"""
        self.compute_emits()
        self.find_setters()
        for f in order:
            self.summary[f.id] = self.analyse(f)
        return self.summary


def topo_order(family):
    ids = {f.id: f for f in family}
    deps = {f.id: set() for f in family}
    for f in family:
        for bid, i, s, e in f.walk():
            if e.get('k') == 'call' and e.get('cid') in ids and e['cid'] != f.id:
                deps[f.id].add(e['cid'])
    order = []
    done = set()

    def visit(i, stack=()):
        if i in done or i in stack:
            return
        for d in sorted(deps[i]):
            visit(d, stack + (i,))
        done.add(i)
        order.append(ids[i])
    for i in sorted(ids):
        visit(i)
    return order
