"""E5.quote-eval — Quote(src, nb, dst) evaluated byte by byte (sv/bytevm.py) against JSON string quoting.

Obligation (C09 'string quoting is exact for all bytes and stays in its buffers'): the bytes written are an opening
quote, a body and a closing quote; the body contains no raw quote, backslash or control byte, and decoding it as a JSON
string gives back exactly the nb source bytes (bytes >= 0x80 pass through untouched) - whichever escape spelling the
tables choose; the returned pointer is the end of what was written; every store lies inside the reservation the
serializer makes for a string of nb bytes (6*nb + 32 + 3); no byte is read outside the page(s) the source string
occupies (the source is placed at every distance from the end of a mapped page, the next page being unmapped), and
none outside [src, src+nb) is needed for the result.  Every byte value at positions around the vector blocks, and
special bytes at every position of strings of every length up to two blocks.
"""
from .core import strip, show, AnalysisBroken
from .minterp import Unsupported, UndefinedBehaviour
from .bytevm import ByteVM

PAGE = 4096
SIMPLE = {ord('"'): '"', ord('\\'): '\\', ord('/'): '/', ord('b'): '\b', ord('f'): '\f', ord('n'): '\n', ord('r'): '\r', ord('t'): '\t'}


def decode_body(body):
    """JSON string body -> bytes, or None if it is not a valid body (raw control / quote, bad escape)"""
    out = bytearray()
    i = 0
    while i < len(body):
        c = body[i]
        if c < 0x20 or c == ord('"'):
            return None
        if c != ord('\\'):
            out.append(c)
            i += 1
            continue
        if i + 1 >= len(body):
            return None
        e = body[i + 1]
        if e in SIMPLE:
            out += SIMPLE[e].encode('latin-1')
            i += 2
            continue
        if e == ord('u') and i + 6 <= len(body):
            try:
                cp = int(body[i + 2:i + 6].decode('ascii'), 16)
            except ValueError:
                return None
            if cp >= 0x80:
                return None        # the quoter only ever needs \\u00XX for control bytes
            out.append(cp)
            i += 6
            continue
        return None
    return bytes(out)


def clause(facts, rep, tier, which=None, rule='E5.quote-eval', exact_reads=False):
    # the kernels proper (the runtime-dispatch entry only forwards to one of them)
    fs = [f for f in facts.functions if f.short == 'Quote' and len(f.params) == 3 and f.blocks and 'char' in f.params[0]['t'] and ('::avx2::' in f.name or '::sse::' in f.name)]
    if which:
        fs = [f for f in fs if any(w in f.name for w in which)]
    rep.require(len(fs) >= 1, '%s: Quote not found (%s)' % (rule, facts.config))
    full = tier == 'thorough'
    for fn in fs:
        rep.fn(fn)
        V = 32 if '::avx2::' in fn.name else 16
        vm = ByteVM(facts)
        cases = []      # (bytes, distance of the end of the string from the end of the mapped page)
        filler = lambda n, k=0: bytes(0x61 + (i + k) % 26 for i in range(n))
        for b in range(256):
            for p in ((0, V - 1, V + 1) if not full else (0, 1, V - 1, V, V + 1, 2 * V)):
                for q in (0, 2):
                    cases.append((filler(p) + bytes([b]) + filler(q, 3), 200))
        for L in (range(1, V + 3) if not full else range(1, 2 * V + 3)):
            for pos in range(0, L, 1 if full or L <= 8 else 3):
                for sp in (ord('"'), 0x01) if not full else (ord('"'), ord('\\'), 0x0a, 0x01, 0x1f):
                    s = bytearray(filler(L))
                    s[pos] = sp
                    cases.append((bytes(s), 200))
        # consecutive specials and multi-byte UTF-8
        for run in (2, 3, V, V + 1):
            cases.append((b'"' * run, 200))
            cases.append((b'ab' + b'\\' * run + b'cd', 200))
        cases.append(('é中\U0001F600'.encode() * 5, 200))
        cases.append((b'', 200))
        # the source ends at every small distance from the end of a mapped page (the next page is not mapped)
        for off in (0, 1, 2, V - 1, V, V + 1, 2 * V - 1, 2 * V):
            for L in (1, 2, V - 1, V, V + 1, 2 * V, 2 * V + 3):
                cases.append((filler(L), off))
                s = bytearray(filler(L))
                s[L - 1] = ord('"')
                cases.append((bytes(s), off))
                s[0] = 0x0a
                cases.append((bytes(s), off))
        bad = None
        n = 0
        src_page, dst = 0x200000, 0x400000
        try:
            for s, off in cases:
                L = len(s)
                src = src_page + 2 * PAGE - off - L          # two mapped pages, then unmapped
                mem = {}
                if not exact_reads:
                    # the bytes around the string are readable up to the end of the page; those BEHIND it are quotes, so a
                    # lane beyond nb that leaks into the escape mask shows in the output
                    for a in range(max(src_page, src - 2 * V - 8), src):
                        mem[a] = 0x7a
                    for a in range(src + L, src_page + 2 * PAGE):
                        mem[a] = 0x22
                # (exact_reads: a sanitizer build - any read outside [src, src+nb) is an error, as the sanitizer would report)
                for i, b in enumerate(s):
                    mem[src + i] = b
                if not mem:
                    mem[src_page - 8] = 0
                room = 6 * L + 32 + 3
                for a in range(dst, dst + room):
                    mem[a] = 0xCD
                it = vm.make(fn, mem, [(dst, dst + room)])
                try:
                    r, env, _, _ = it.run({fn.params[0]['id']: src, fn.params[1]['id']: L, fn.params[2]['id']: dst}, {})
                except UndefinedBehaviour as ex:
                    bad = 'string %r (%d bytes, ending %d bytes before the end of its page): undefined behaviour: %s' % (s[:40], L, off, ex)
                    break
                n += 1
                if not isinstance(r, int) or not dst + 2 <= r <= dst + room:
                    bad = 'string %r: returns %r (buffer at 0x%x, %d bytes reserved)' % (s[:40], r, dst, room)
                    break
                out = bytes(mem[dst + i] for i in range(r - dst))
                body = out[1:-1]
                dec = decode_body(body) if out[:1] == b'"' and out[-1:] == b'"' else None
                if dec != s:
                    bad = 'string %r is quoted as %r, which %s' % (s[:40], out[:80], 'is not a quoted JSON string' if dec is None else 'decodes to %r' % dec[:40])
                    break
        except Unsupported as ex:
            raise AnalysisBroken('%s: %s cannot be evaluated: %s' % (rule, fn.name, ex))
        rep.extra['strings_quoted'] = rep.extra.get('strings_quoted', 0) + n
        rep.check(bad is None, rule, fn.qn, 'quoted text decodes back to the source, stores inside the reservation, no read outside the mapped pages, on %d strings (vector width %d)' % (n, V),
                  fn.loc, bad or '', facts.config)
