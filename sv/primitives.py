"""Primitive contracts: the trusted base of the interval / budget engines.
One line of justification each (Intel intrinsics guide / C and C++ standards)."""

# bytes read by a vector load constructor / intrinsic from its pointer argument
LOAD_WIDTH = {
    'simd256': 32,            # _mm256_loadu_si256: 32 bytes
    'simd128': 16,            # _mm_loadu_si128: 16 bytes
    'simd8x64': 64,           # two simd256 or four simd128 loads: 64 bytes
    'simd8': None,
    '_mm256_loadu_si256': 32,
    '_mm256_load_si256': 32,
    '_mm_loadu_si128': 16,
    '_mm_load_si128': 16,
    '_mm_loadl_epi64': 8,
}
STORE_WIDTH = {
    '_mm256_storeu_si256': 32,
    '_mm_storeu_si128': 16,
    '_mm_storel_epi64': 8,
}
