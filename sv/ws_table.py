"""Shared rule: the SIMD white-space classifier (GetNonSpaceBits: pshufb table lookup + byte compare)
classifies exactly the RFC 8259 white space, i.e. agrees with the scalar IsSpace on all 256 bytes.
pshufb semantics (Intel SDM): result byte = 0 if the index byte has bit 7 set, else table[index & 15]."""
from .core import strip, cval, show, walk, locline
from .props.c01_number import eval_pure

WS = {0x20, 0x09, 0x0A, 0x0D}


def check(facts, rep, rule='E5.whitespace-table'):
    n = 0
    tables = {}
    for f in facts.functions:
        if f.short != 'GetNonSpaceBits':
            continue
        rep.fn(f)
        tab = None
        shuffles = 0
        compares = 0
        for bid, i, s, e in f.walk():
            if e.get('k') == 'call' and e.get('cname') in ('repeat_16', '_mm_setr_epi8', '_mm256_setr_epi8') and len(e.get('args', [])) in (16, 32):
                vals = [cval(a) for a in e['args']]
                if all(v is not None for v in vals):
                    tab = [v & 0xFF for v in vals[:16]]
                    if len(vals) == 32 and [v & 0xFF for v in vals[16:]] != tab:
                        tab = None
            if e.get('k') == 'call' and e.get('cname') in ('_mm_shuffle_epi8', '_mm256_shuffle_epi8'):
                shuffles += 1
            if e.get('k') == 'call' and e.get('cname') in ('_mm_cmpeq_epi8', '_mm256_cmpeq_epi8', 'eq'):
                compares += 1
        rep.require(tab is not None and shuffles >= 1 and compares >= 1,
                    '%s: white-space table / shuffle / compare of %s not recognised' % (rule, f.qn))
        if tab is None:
            continue
        got = set()
        for b in range(256):
            looked = 0 if b & 0x80 else tab[b & 15]
            if looked == b:
                got.add(b)
        n += 1
        tables[f.qn] = tab
        rep.check(got == WS, rule, f.qn, 'bytes classified as white space by table[b & 15] == b: %s' % sorted(hex(x) for x in got), f.loc,
                  'must be exactly {0x20, 0x09, 0x0a, 0x0d}; table = %s' % tab, facts.config)
    # the scalar twin
    for f in facts.functions:
        if f.qn == 'sonic_json::internal::IsSpace':
            rep.fn(f)
            got = set()
            for b in range(256):
                r = eval_pure(f, {f.params[0]['id']: b})
                if r:
                    got.add(b)
            n += 1
            rep.check(got == WS, rule, f.qn, 'IsSpace true exactly on %s' % sorted(hex(x) for x in got), f.loc, 'must be the RFC 8259 white space', facts.config)
    rep.require(n >= 2, '%s: classifiers found: %d' % (rule, n))
    return tables
