#!/usr/bin/env python3
"""Regenerates /verif/MANIFEST.json from the table below (single source of truth)."""
import json, os
V = os.path.dirname(os.path.dirname(os.path.abspath(__file__)))
props = [json.loads(l)['id'] for l in open(os.path.join(V, 'properties.jsonl'))]

CLAIMS = {
 'C02': dict(
  category='proof',
  technique='custom static analysis over clang CFG/AST facts: fail-world status-discipline exploration (E1), must-dominance dataflow (E2), constant agreement (E5)',
  text=("Decides, on every run from /repo's current source, four structural necessary conditions of memory-safe parsing "
        "(DESIGN.md 5/C02 a-d): (a) no SAX event status is dropped in any Parser instantiation - every path on which an event "
        "returned false reaches an error signal before any further event or a return that hides it (the SchemaHandler skip branch is the only "
        "accepted non-error consumer); (b) every access to st_[np_-1] is dominated by the success edge of node(), node() grows np_ only under "
        "np_ < cap_, cap_ never exceeds the allocated element count; (c) TearDown destroys only indices below np_ and frees st_; "
        "(d) the private copy is len+K with K covering the widest padded load and the 3-byte sentinel whose bytes cannot continue any token. "
        "It does NOT decide absence of undefined behaviour in general; behaviour is not executed."),
  note='Trusted: clang 14 front end (parser, template instantiation, CFG, constant evaluator); primitive load-width table sv/primitives.py; libc realloc/free/memcpy contracts. Path-insensitive joins; a construct the engine cannot model is exit 2.',
  design='5/C02'),
 'C01': dict(
  category='model_checking',
  technique='model extraction from clang CFG facts + exhaustive product with an RFC 8259 reference transducer (E6); abstract interpretation of parseNumber against the number DFA; dominance dataflow; constant checks',
  text=("Decides from /repo's current source: (a) the lexeme-level language of Parser::Parse/parseImpl/parsePrimitives, interpreted mechanically from the CFG of the SAXHandler "
        "instantiation, equals RFC 8259's (same accept/reject for every lexeme sequence up to the nesting bound, incl. unterminated strings meeting the sentinel and trailing bytes), "
        "by exhaustive exploration of the product with a reference transducer; (b) parseNumber, abstractly interpreted over byte classes, only steps its cursor along transitions of the RFC 8259 number DFA and "
        "reports success only in accepting states (digit after '.', 'e', sign, '-'; no digits after a leading 0), with the digit helpers verified over all 256 bytes; (c) literal constants and cursor advances; "
        "(d) sentinel bytes and padding; (e) failure coherence: root installed only on the no-error edge, old DOM destroyed first, reported offset bounded by the length. "
        "NOT decided: string scanning (C05), numeric values (C04), SIMD white-space skipping, the error-class naming."),
  note='Trusted: clang 14 front end; the hand-written reference transducer (sv/e6_vpa.py ref_step) and number DFA (sv/props/c01_number.py); contract that each scalar sub-parser consumes one well-formed lexeme of its kind or sets err_; simd_str2int digit-count contract. Nesting explored exactly up to depth 3 (quick) / 4 (thorough), element counts saturate at 2. Unmodelled statements -> exit 2.',
  design='5/C01'),
 'C03': dict(
  category='model_checking',
  technique='model extraction + exhaustive product comparing SAX event streams (E6); exact checks of enum/shift constants (E5)',
  text=("Decides: (a) the SAX transduction of the parser skeleton is canonical - Start/End events on brackets, exactly one count increment per completed element or member, End*(count) arguments, Key before ':' and a value event after it - "
        "by the same product exploration as C01, comparing output streams with the reference transducer; (b) the type-flag algebra of type.h (basic types distinct in 3 bits, sub-types refine their basic type, container mask selects exactly object/array, 8 info bits); "
        "(c) every length pack/unpack shift uses the info width. NOT decided: node copying, parent-index chaining, white-space bitmap caching, accessor behaviour, numeric values."),
  note='Trusted: clang 14 front end; reference transducer; scalar sub-parser contract. Bounds as C01.',
  design='5/C03'),
}
NA_REASON = {
 'C19': 'Agreement with a recursive merge model over (document, text) pairs; no structural clause that is a necessary condition without mirroring the handler code (DESIGN.md section 7).',
}
checks = []
na = []
for p in props:
    if p in CLAIMS:
        c = CLAIMS[p]
        checks.append(dict(
            property_id=p,
            quick_cmd='./check %s --tier quick' % p,
            thorough_cmd='./check %s --tier thorough' % p,
            evidence_file='evidence/%s.json' % p,
            replay_cmd_template='./check %s --replay {path}' % p,
            engine='sv',
            level_claimed=dict(category=c['category'], text=c['text'], design_ref=c['design']),
            level_note=c['note'],
            technique=c['technique']))
    else:
        na.append(dict(property_id=p, reason=NA_REASON.get(p, 'static check not built yet in this round (planned clause in DESIGN.md section 5); not claimed until the rule exists and is silent on the unchanged tree')))
m = dict(
    version=1,
    setup_cmd='sh ./setup.sh',
    hooks=dict(guard='BYTEDANCE_SONIC_CPP_VERIF', enable='none needed: every check parses the unmodified headers (no hooks in /repo)',
               baseline_off_cmd='cmake --build /repo/_build -j16 && cd /repo && ./_build/tests/unittest',
               source_commits=[], add_only=True),
    engines=[dict(name='sv', path='sv/', serves_properties=sorted(CLAIMS),
                  kind_free_text='libTooling fact extractor (tools/sonic-facts) + Python rule engines over clang CFG/AST/constant facts; no execution of library code')],
    checks=checks,
    notes='Static analysis only. Exit codes: 0 held, 1 VIOLATION, 2 analysis broken (anchor vanished / rule below confirmed instance count). Known findings: known_findings.json.',
    not_applicable=na)
json.dump(m, open(os.path.join(V, 'MANIFEST.json'), 'w'), indent=1)
print('claimed:', sorted(CLAIMS), 'not_applicable:', [x['property_id'] for x in na])
