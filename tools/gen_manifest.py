#!/usr/bin/env python3
"""Regenerates /verif/MANIFEST.json from the table below (single source of truth)."""
import json, os
V = os.path.dirname(os.path.dirname(os.path.abspath(__file__)))
props = [json.loads(l)['id'] for l in open(os.path.join(V, 'properties.jsonl'))]

CLAIMS = {
 'C02': dict(
  category='proof',
  technique='custom static analysis over clang CFG/AST facts: fail-world status-discipline exploration (E1), must-dominance dataflow (E2), constant agreement (E5)',
  text=("Decides, on every run from /repo's current source, four structural necessary conditions of memory-safe parsing "
        "(DESIGN.md 5/C02 a-d): (a) no SAX event status is dropped in any Parser instantiation - every path on which an event "
        "returned false reaches an error signal before any further event or a return that hides it (the SchemaHandler skip branch is the only "
        "accepted non-error consumer); (b) every access to st_[np_-1] is dominated by the success edge of node(), node() grows np_ only under "
        "np_ < cap_, cap_ never exceeds the allocated element count; (c) TearDown destroys only indices below np_ and frees st_; "
        "(d) the private copy is len+K with K covering the widest padded load and the 3-byte sentinel whose bytes cannot continue any token. "
        "It does NOT decide absence of undefined behaviour in general; behaviour is not executed."),
  note='Trusted: clang 14 front end (parser, template instantiation, CFG, constant evaluator); primitive load-width table sv/primitives.py; libc realloc/free/memcpy contracts. Path-insensitive joins; a construct the engine cannot model is exit 2.',
  design='5/C02'),
}
NA_REASON = {
 'C19': 'Agreement with a recursive merge model over (document, text) pairs; no structural clause that is a necessary condition without mirroring the handler code (DESIGN.md section 7).',
}
checks = []
na = []
for p in props:
    if p in CLAIMS:
        c = CLAIMS[p]
        checks.append(dict(
            property_id=p,
            quick_cmd='./check %s --tier quick' % p,
            thorough_cmd='./check %s --tier thorough' % p,
            evidence_file='evidence/%s.json' % p,
            replay_cmd_template='./check %s --replay {path}' % p,
            engine='sv',
            level_claimed=dict(category=c['category'], text=c['text'], design_ref=c['design']),
            level_note=c['note'],
            technique=c['technique']))
    else:
        na.append(dict(property_id=p, reason=NA_REASON.get(p, 'static check not built yet in this round (planned clause in DESIGN.md section 5); not claimed until the rule exists and is silent on the unchanged tree')))
m = dict(
    version=1,
    setup_cmd='sh ./setup.sh',
    hooks=dict(guard='BYTEDANCE_SONIC_CPP_VERIF', enable='none needed: every check parses the unmodified headers (no hooks in /repo)',
               baseline_off_cmd='cmake --build /repo/_build -j16 && cd /repo && ./_build/tests/unittest',
               source_commits=[], add_only=True),
    engines=[dict(name='sv', path='sv/', serves_properties=sorted(CLAIMS),
                  kind_free_text='libTooling fact extractor (tools/sonic-facts) + Python rule engines over clang CFG/AST/constant facts; no execution of library code')],
    checks=checks,
    notes='Static analysis only. Exit codes: 0 held, 1 VIOLATION, 2 analysis broken (anchor vanished / rule below confirmed instance count). Known findings: known_findings.json.',
    not_applicable=na)
json.dump(m, open(os.path.join(V, 'MANIFEST.json'), 'w'), indent=1)
print('claimed:', sorted(CLAIMS), 'not_applicable:', [x['property_id'] for x in na])
