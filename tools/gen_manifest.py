#!/usr/bin/env python3
"""Regenerates /verif/MANIFEST.json from the table below (single source of truth)."""
import json, os
V = os.path.dirname(os.path.dirname(os.path.abspath(__file__)))
props = [json.loads(l)['id'] for l in open(os.path.join(V, 'properties.jsonl'))]

CLAIMS = {
 'C02': dict(
  category='proof',
  technique='custom static analysis over clang CFG/AST facts: fail-world status-discipline exploration (E1), must-dominance dataflow (E2), constant agreement (E5)',
  text=("Decides, on every run from /repo's current source, four structural necessary conditions of memory-safe parsing "
        "(DESIGN.md 5/C02 a-d): (a) no SAX event status is dropped in any Parser instantiation - every path on which an event "
        "returned false reaches an error signal before any further event or a return that hides it (the SchemaHandler skip branch is the only "
        "accepted non-error consumer); (b) every access to st_[np_-1] is dominated by the success edge of node(), node() grows np_ only under "
        "np_ < cap_, cap_ never exceeds the allocated element count; (c) TearDown destroys only indices below np_ and frees st_; "
        "(d) the private copy is len+K with K covering the widest padded load and the 3-byte sentinel whose bytes cannot continue any token. "
        "It does NOT decide absence of undefined behaviour in general; behaviour is not executed."),
  note='Trusted: clang 14 front end (parser, template instantiation, CFG, constant evaluator); primitive load-width table sv/primitives.py; libc realloc/free/memcpy contracts. Path-insensitive joins; a construct the engine cannot model is exit 2.',
  design='5/C02'),
 'C01': dict(
  category='model_checking',
  technique='model extraction from clang CFG facts + exhaustive product with an RFC 8259 reference transducer (E6); abstract interpretation of parseNumber against the number DFA; dominance dataflow; constant checks',
  text=("Decides from /repo's current source: (a) the lexeme-level language of Parser::Parse/parseImpl/parsePrimitives, interpreted mechanically from the CFG of the SAXHandler "
        "instantiation, equals RFC 8259's (same accept/reject for every lexeme sequence up to the nesting bound, incl. unterminated strings meeting the sentinel and trailing bytes), "
        "by exhaustive exploration of the product with a reference transducer; (b) parseNumber, abstractly interpreted over byte classes, only steps its cursor along transitions of the RFC 8259 number DFA and "
        "reports success only in accepting states (digit after '.', 'e', sign, '-'; no digits after a leading 0), with the digit helpers verified over all 256 bytes; (c) literal constants and cursor advances; "
        "(d) sentinel bytes and padding; (e) failure coherence: root installed only on the no-error edge, old DOM destroyed first, reported offset bounded by the length; "
        "(f) overflow rejection: the Eisel-Lemire path can only store a biased exponent in [1,0x7FE] (guards evaluated over wrap-around candidates) and a success return after the AtofNative fallback sits on the not-infinity edge; the SIMD white-space tables select exactly the four JSON white-space bytes. "
        "NOT decided: numeric values (C04), which fault class a truncated text is given."),
  note='Trusted: clang 14 front end; the hand-written reference transducer (sv/e6_vpa.py ref_step) and number DFA (sv/props/c01_number.py); contract that each scalar sub-parser consumes one well-formed lexeme of its kind or sets err_; simd_str2int digit-count contract. Nesting explored exactly up to depth 3 (quick) / 4 (thorough), element counts saturate at 2. Unmodelled statements -> exit 2.',
  design='5/C01'),
 'C03': dict(
  category='model_checking',
  technique='model extraction + exhaustive product comparing SAX event streams (E6); exact checks of enum/shift constants (E5)',
  text=("Decides: (a) the SAX transduction of the parser skeleton is canonical - Start/End events on brackets, exactly one count increment per completed element or member, End*(count) arguments, Key before ':' and a value event after it - "
        "by the same product exploration as C01, comparing output streams with the reference transducer; (b) the type-flag algebra of type.h (basic types distinct in 3 bits, sub-types refine their basic type, container mask selects exactly object/array, 8 info bits); "
        "(c) every length pack/unpack shift uses the info width; (d) the truncation flag of parseNumber is monotone and the 20th digit is folded into an integer exactly when the result fits uint64 (branch conditions evaluated on a grid around UINT64_MAX/10). NOT decided: node copying, parent-index chaining, white-space bitmap caching, accessor behaviour, numeric values."),
  note='Trusted: clang 14 front end; reference transducer; scalar sub-parser contract. Bounds as C01.',
  design='5/C03'),
 'C04': dict(
  category='proof',
  technique='exact big-integer verification of constant tables (E5); interval abstract interpretation with call-site context and by-reference post-conditions for table subscripts (E3); guard-constant checks',
  text=("Decides: (a) every initialised row of kPow10M128Tab equals floor(10^e 2^(127-floor(log2 10^e))) for e=-348..347, kPow10Tab[i] is the exact double 10^i, LSHIFT_TAB[k] == {digits(2^k), str(5^k)}, "
        "kUint8PopCnt[i]==bit_length(i), kPowTab and the local pow10[] table; (b) every subscript into these tables is inside the initialised rows on all paths (interval analysis with "
        "parameter ranges joined over call sites and callee post-conditions for by-reference arguments); (c) the exact fast-path guards lie inside the region where Clinger's argument applies "
        "(|exp10|<=22(+15), mantissa < 2^53, normal-double window of ParseFloatingNormalFast, 2^63 / UINT64_MAX/10 / %10 integer boundaries, (217706 e)>>16 == floor(e log2 10) on the whole table range); every multiply/divide of parseFloatingFast's accumulator acts on the converted mantissa or on a product tested <= 2^53 since it last changed; the 20-digit fold is reached iff man*10+digit <= UINT64_MAX; (d) the truncation flag is only set or OR-ed; (e) AtofEiselLemire64 stores only biased exponents in [1,0x7FE] and the AtofNative result is screened for infinity before success. "
        "NOT decided: correct rounding, Eisel-Lemire bail-out logic, the big-decimal fallback, digit accumulation/truncation bookkeeping - numerical results are outside a sound static argument in reach."),
  note='Trusted: clang 14 front end and constant evaluator; Python big integers/fractions; simd_str2int is analysed for its by-reference post-condition only; intrinsic result ranges (movemask, ctz).',
  design='5/C04'),
 'C08': dict(
  category='proof',
  technique='exact table verification and exact-division theorem on reciprocal constants (E5); abstract evaluation of the SSE digit splitter from its IR for every 4-digit group; interval analysis of subscripts and argument ranges (E3)',
  text=("Decides: (a) kDigits is 00..99 and the splat tables; (b) floor(n*m>>s)==floor(n/10^4) for all n<10^8 for the multiplier/shift bound from UtoaSSE's data flow (exact-division theorem), and UtoaSSE's actual intrinsic "
        "pipeline, evaluated lane-exactly from the IR, yields the 8 decimal digits for every 4-digit group value in both halves (20017 inputs); (c) split points 10^8/10^16, every kDigits subscript within the array, "
        "every call of the 8/16-digit vector routines passes a value below 10^8/10^16; (d) I64toa stores '-' and negates; (e) every 64->32 bit cast of a variable in itoa.h is value preserving. NOT decided: end-to-end digit composition for all 2^64 values."),
  note='Trusted: clang 14 front end; Intel lane semantics of 13 SSE2 intrinsics in sv/sse_interp.py; exact-division theorem (Hacker\'s Delight 10-9).',
  design='5/C08'),
 'C06': dict(
  category='proof',
  technique='write-budget abstract interpretation over the CFG of SerializeImpl (E4: lower bound of reserved-but-unwritten bytes, affine in the string length, min-join, widening); dominance rules for error exits',
  text=("Decides: (a) along every path of SerializeImpl (both node types, loops by fixpoint) each PushUnsafe / PushSizeUnsafe / Push5_8 and each writer called at wb.End() (Quote, U64toa, I64toa, F64toa) is covered by "
        "the Grow/Reserve in force since the last consumption, using the callees' write contracts; (b) a non-positive F64toa result never reaches a push and the three error classes plus the kind-switch default reach a non-zero return without writing; "
        "Dump returns ToString() only on kErrorNone; (c) ToString grows before writing the terminator; (d) structural obligations of the number writers shared with C07/C08 (Schubfach interval endpoints open exactly for odd significands; no lossy 64->32 truncation in ftoa.h/itoa.h). NOT decided: round-trip equality end to end."),
  note='Trusted: clang 14 front end; writer contracts (cross-referenced to C07/C08/C09 evidence); node type invariant for the inner kind switch.',
  design='5/C06'),
 'C07': dict(
  category='proof',
  technique='exact big-integer table verification, exhaustive evaluation of approximation formulas over the double exponent range (E5); must-dominance with case split (E2); interval analysis of the table index (E3); sibling-agreement rule on interval endpoints (E9)',
  text=("Decides: (a) all rows of the Pow10CeilSig table equal ceil(10^k 2^-r); (b) the two log approximations are exact for every binary exponent a double can have (2046 values) and every induced k; (c) the table index is in range; "
        "(d) Ctz10 equals the decimal digit count at every power-of-ten boundary; (e) every positive-length return of F64toa has stored '.' or went through a formatter that stores '.'/'e' on all paths, Inf/NaN return 0; "
        "(f) closed-form maximum length <= 32 and <= the serializer reserve; (g) every comparison of F64ToDecimal that tests the left/right RoundToOdd boundary uses boundary +/- (c&1), decided by evaluating the substituted expressions (names of locals irrelevant); (h) every 64->32 bit cast of a variable in ftoa.h is value preserving (dominating guard evaluated over wrap-around candidates, bounded quotient, or the remainder idiom). NOT decided: shortest/closest/round-trip (Schubfach interval arithmetic is value level)."),
  note='Trusted: clang 14 front end and constant evaluator; Python big integers / fractions.',
  design='5/C07'),
 'C09': dict(
  category='proof',
  technique='exact table verification against RFC 8259 section 7 (E5); exhaustive evaluation of the page guard and tail mask over their finite domains; interval analysis (E3); closed-form reserve check',
  text=("Decides: (a) kNeedEscaped/kQuoteTab for all 256 bytes; (b) length bound 6n+2; (c) the serializer's reserve covers the worst transient extent for the configuration's vector width; "
        "(d) in the production parse the direct tail read is taken only when no full-vector load can leave the page of the string's last byte - the guard expression is evaluated for every (page offset, tail length) pair - "
        "the bounce buffer is large enough, the tail mask equals 2^nb-1 for every nb, and with sanitizer macros the over-read branch is absent; (e) the vector loop bound equals the load width; (f) DoEscape dereferences the source cursor only while nb >= 1 is known since src/nb last moved. "
        "NOT decided: that the bytes between the quotes are exactly the escaped input."),
  note='Trusted: clang 14 front end; vector load/store widths (sv/primitives.py); PAGE_SIZE 4096.',
  design='5/C09'),
 'C10': dict(
  category='proof',
  technique='must-dominance dataflow (E2) and interval analysis (E3) over the on-demand entry functions',
  text=("Decides ONLY the structural clauses: a path step into a value of the wrong kind reaches the mismatch error (the index step is dominated by c=='[', the key step by c=='{'); "
        "GetArrayElem returns a non-zero code for every index < 0 (interval proof) and receives the signed index unchanged; every error travels negated; the wrapper clears the slice on error and builds it only from a non-negative start; "
        "ParseOnDemand parses the target only on success; GetArrayElem consumes a value as an element only after excluding the closing bracket; an escaped key is decoded before comparison unless its raw length rules a match out (raw < wanted or raw > 6*wanted; guards evaluated on a grid). NOT decided - the bulk of the property: that the selected member/element agrees with the fully parsed DOM (differential semantic statement)."),
  note='Trusted: clang 14 front end.',
  design='5/C10'),
 'C11': dict(
  category='proof',
  technique='zone (difference-bound) abstract interpretation of cursor/limit/pointer offsets with automatically derived callee pre/post-conditions, partitioned by pointer provenance (E3); call-graph reachability; error-sign rule; dominance',
  text=("Decides: (a) every read of the caller's buffer in the 13 functions of the unpadded family (subscripts, 16/32/64-byte vector loads, EqBytes4, memcpy/memcmp ranges) satisfies 0 <= off and off+width <= len on all paths, "
        "with callee preconditions proved at every call site, return-value-conditional post-conditions, the cached-block class invariant of SkipScanner proved inductive, and SkipContainer's zero-padded tail tracked as a symbolic mask extent; "
        "(b) the unpadded entry points cannot reach the padded-only skip_space; (c) every SonicError returned through an offset channel is negated; (d) the key memcmp is dominated by length equality; "
        "(e) private decode buffers contain the closing quote and VEC_LEN-1 bytes of slack at both sibling sites. Run for static AVX2, static SSE and dynamic dispatch (join over target versions). "
        "NOT decided: that a success slice is a sub-range of the input."),
  note='Trusted: clang 14 front end; vector load widths; TrailingZeroes/to_bitmask range contracts; memcpy/memcmp ranges; parseStringInplace never grows the text; no size_t wrap on cursor/length (< 2^63); one buffer per SkipScanner (C02 E7.fresh-parser).',
  design='5/C11'),
 'C20': dict(
  category='proof',
  technique='zone abstract interpretation of parseLazyImpl and its sibling site (E3), dominance on the ownership flag (E2)',
  text=("Decides the clause 'keys are matched by their decoded value' and the merge skeleton: the escaped key is decoded from a private copy that reaches the closing quote found by SkipString and has VEC_LEN-1 bytes of slack; "
        "both sibling sites (parser.h, simd_skip.h) satisfy it; the key node is told it owns the buffer exactly when one was allocated; a decode error frees the buffer. Also the skeleton of UpdateNodeLazy: the replace-or-merge decision replaces exactly when NOT(target object AND source object AND target non-empty) over all 16 assignments of its four tests; every loop iteration over [source.MemberBegin(), MemberEnd()) appends or recursively merges its member before advancing; success is returned only after the replacement or the completed loop; each lazily parsed slice gets a fresh Parser (scanner cache is per buffer). NOT decided: the merge semantics end to end."),
  note='Trusted: clang 14 front end; C11 callee summaries; parseStringInplace contract.',
  design='5/C20'),
 'C05': dict(
  category='proof',
  technique='exact table verification (E5); exhaustive path enumeration with wrap-aware interval sets over handle_unicode_codepoint (E3); evaluation of codepoint_to_utf8 against RFC 3629; must-dominance for error classes (E2)',
  text=("Decides: (a) kEscapedMap maps exactly the eight escapes, and for the four (offset, digit) lookups bound from hex_to_u32_nocheck's data flow the hex table holds hex(b)<<shift or 0xFFFFFFFF for all 256 bytes; "
        "(b) on every path of handle_unicode_codepoint the value handed to codepoint_to_utf8 is never in [0xD800,0xDFFF] and a combined pair always lies in [0x10000,0x10FFFF] (value sets derived from the verified table, refined through the branch conditions); "
        "(c) codepoint_to_utf8 equals UTF-8 on every range boundary +-1 and a stride of all scalar values (every 7th in the thorough tier) and returns 0 above U+10FFFF; "
        "(d) each error store in parseStringInplace is dominated by the condition of its class; (e) every consumption of source bytes in parseStringInplace (cursor advance, byte copy, vector store, success return) is dominated, since the current block was computed, by its control-byte screening; "
        "(f) the three StringBlock predicates equal first-of(quote, backslash, control) for all 4^6 bit placements at the block's edge lanes; (g) the block masks are built from == 0x5c, == 0x22, unsigned < 0x20 in field order. NOT decided: byte counts moved by the in-place copy loop across alignments."),
  note='Trusted: clang 14 front end; Python UTF-8 codec as oracle; loop-freeness of handle_unicode_codepoint (a loop would be exit 2).',
  design='5/C05'),
 'C14': dict(
  category='proof',
  technique='exhaustive evaluation of the page guard; abstract evaluation of the comparison skeleton on the all-equal path for every length up to five blocks (bounds + byte coverage); dominance rules',
  text=("Decides: (a) in_page_32 is true only when a 32-byte load from either operand stays in its page (evaluated for every page offset), returns false under sanitizer macros, and every 32-byte load of the short path is dominated by it; "
        "(b) for every length s = 0..160 (300 thorough) and both guard outcomes, InlinedMemcmpEq and InlinedMemcmp read both operands at equal offsets inside [0,s) and every byte of [0,s) takes part in a comparison; "
        "(c) the linear lookup guards the comparison by size equality and the map comparator compares min(n1,n2) bytes with a length tie-break; (d) the dynamic-dispatch build forwards to the StringView lookup; (e) every return of the three-way compare family is 0, a forwarded memcmp/family call in operand order, or an unsigned-byte left-minus-right difference at one index - a sign obtained from a signed vector compare (also through a helper) is a violation. "
        "NOT decided: mismatch localisation (which index is reported first)."),
  note='Trusted: clang 14 front end; Intel semantics of loadu/cmpeq/movemask/and/BZHI; page size 4096.',
  design='5/C14'),
 'C16': dict(
  category='proof',
  technique='must-dominance dataflow with alignment tokens (E2), exhaustive evaluation of AlignBuffer over all misalignments, structural pairing rules',
  text=("Decides: (a) every amount added to the chunk size derives from SONIC_ALIGN, header sizes are multiples of 8, AlignBuffer returns an 8-aligned pointer advanced by <8 and reduces the size by exactly the bytes skipped for every misalignment; "
        "(b) each bump is dominated by size+x<=capacity or by a successful AddChunk(ChunkSize(x)) on a fresh chunk, ChunkSize(n)=max(policy,n); (c) Realloc extends in place only the last block when growing and copies originalSize bytes; "
        "(d) a zero-size Malloc returns before touching the pool; (e) refcount pairing of copy/move/destroy. Run for the simple and adaptive policies and the locked build in the thorough tier. "
        "NOT decided: disjointness/stability over histories, Size/Capacity accounting."),
  note='Trusted: clang 14 front end.',
  design='5/C16'),
 'C17': dict(
  category='proof',
  technique='effect analysis over the whole library: static-storage census with write classification, const-API call-graph purity, lock-scope must-analysis in the locked-allocator configuration, memory orders, clang -verify compile-fail witnesses',
  text=("Decides: (a) every static-storage variable of the library is const, atomic, thread_local or never written; (b) no function reachable from the read-only API writes to the object through const_cast or a mutable member; "
        "(c) every Parser/SkipScanner is a function-local automatic object; (d) in the SONIC_LOCKED_ALLOCATOR configuration every access to the shared pool state and every AddChunk lies inside a lock_guard scope, Malloc is never called with the guard alive, "
        "SpinLock acquires with >= acquire and releases with >= release on an atomic; 9 witnesses show a const document exposes no mutator. A static over-approximation: if it passes no execution of those operations can store to shared memory. "
        "NOT decided: functional results under contention."),
  note='Trusted: clang 14 front end (compiler-enforced const-correctness); std::lock_guard; standard-library observers.',
  design='5/C17'),
 'C18': dict(
  category='proof',
  technique='who-may-write analysis of the numeric payload, must-dominance (E2), evaluation of sibling constructors, structural rules over operator==',
  text=("Decides: (a) n.i64/u64/f64 are written only by GenericNode constructors that zero the node first and set a kind on every path; numeric setters destroy() and rebuild; (b) sibling constructors select the kind of their value; "
        "(c) operator== compares basic types first, has arms for all container/string/number kinds, a number result requires GetType() equality and a 16-byte whole-node comparison, containers compare sizes before children, strings compare views, != negates. "
        "NOT decided: reflexivity/symmetry/transitivity over all documents."),
  note='Trusted: clang 14 front end.',
  design='5/C18'),
 'C15': dict(
  category='proof',
  technique='sibling / wrapper agreement rules over three configurations (E9); exhaustive evaluation of the per-arch byte classifiers over all 256 byte values (E5)',
  text=("Decides the structural preconditions of agreement between static AVX2, static SSE4.2 and dynamic dispatch: (a) every arch function imported by the dispatch layer has the same signature in avx2:: and sse::; "
        "(b) every target-multiversioned wrapper has a haswell and a westmere version that return ns::same_name(own parameters in order) with the matching chunk size, and a westmere wrapper never calls avx2:: code; "
        "(c) the shared kernels of both namespaces are instantiations of one source body; (d) GetEscaped<BLOCK> and the vector-loop guard equal the vector width per namespace; "
        "(e) both white-space shuffle tables and the scalar IsSpace classify exactly {20,09,0a,0d}, and sse::StringBlock::Find, evaluated for all 256 bytes, classifies exactly like the AVX2 kernel's (== backslash, == quote, <= 0x1f unsigned). "
        "Every other property re-runs its rules on K3/K4 in its thorough tier. NOT decided: equality of results (differential execution property)."),
  note='Trusted: clang 14 front end; Intel semantics of SSE compare/movemask/pshufb; simd wrapper contracts.',
  design='5/C15'),
 'C12': dict(
  category='proof',
  technique='must-dominance dataflow over dynamicnode.h for both allocator kinds (E2); evaluation of the growth expressions over a capacity range; key-provenance rule for map entries (E8)',
  text=("Decides: (a) the append stores of AddMember/PushBack are dominated by Capacity()>Size() or a (re)allocation, and the growth expression is strictly increasing for every capacity >= 1 (evaluated for 1..300 and sampled large values) with a positive first capacity; "
        "(b) map maintenance pairing: AddMember with a live map emplaces the new member under its own stored key with the old size as index; EraseMember destroys the map before destroying/compacting members; "
        "RemoveMember erases the removed entry and re-indexes the moved tail when a map exists; (c) a fresh children block has a null map; (d) the map comparator compares min(n1,n2) bytes with a length tie-break through a three-way compare that is unsigned left-minus-right on every return (shared with C14). "
        "NOT decided: equality with the vector model, values of repaired indices, iterator results."),
  note='Trusted: clang 14 front end; std::multimap semantics.',
  design='5/C12'),
 'C13': dict(
  category='other',
  technique='clang -verify compile-fail witnesses (E10); ownership pairing and provenance must-analyses (E8/E2); call-chain release rule for owning raw-pointer fields',
  text=("Decides: (a) 15 witnesses: copy construction/assignment of DNode, GenericDocument, WriteBuffer, Stack, SAXHandler, SchemaHandler, Parser do not compile; the deep copy shares character data only for constant strings when copying was not requested; "
        "(b) rawAssign nulls its source on every path and every Xmemcpy/memmove of node ranges is paired with abandoning the source range; (c) every store that rewrites a node header/payload acts on a node that is under construction, "
        "a slot of the handler's own stack, or was destroy()ed first (set*Impl, CopyFrom, clearImpl, handler End* functions); (d) destroy() has arms exactly for object, array and kStringFree and frees what each owns; "
        "(e) owning raw-pointer fields (str_, schema_str_, st_, buf_) are overwritten only after a release on the call chain, by a realloc of themselves, or by a move that nulls the source; (f) the document buffers some member hands to Free (derived: str_, schema_str_) are all exchanged by Swap, taken by move construction/assignment and nulled in the source. "
        "One unrepaired known finding (schema_str_ leak on repeated ParseSchema) is listed in known_findings.json, hence level 'other'. NOT decided: exactly-once over arbitrary histories."),
  note='Trusted: clang 14 front end; clang -verify. Freeing-allocator instantiations are the ones analysed (the pool never frees).',
  design='5/C13'),
 'C19': dict(
  category='proof',
  technique='sibling agreement of Start*/End* context-stack effects by path enumeration (E9); must-dominance / path rules for restore-before-pop, build-mode parent and Key lookup (E2)',
  text=("Decides ONLY the mode and context-stack discipline of SchemaHandler, for both node types: (a) the sets of (parent_st_, found_count_st_) effects of the successful paths of StartObject/EndObject and of StartArray/EndArray agree "
        "(an End path popping a combination no Start path pushes lets the saved contexts drift); (b) every pop of a context stack is preceded by a read of its back(), and a pop of found_count_st_ by restoring found_node_count_ from it; "
        "(c) every successful Start* path that pushed a stack node (a new value is being built) leaves parent_node_ null, so Key() cannot look the new value's keys up in an existing object; a path that pushed nothing may leave it on a node tested to be a non-empty object; "
        "(d) Key() looks members up only in a non-null existing object, accepts a key only when the member was found with cur_node_ set to its value, and leaves cur_node_ null otherwise. "
        "Each is a necessary condition of 'updates exactly the declared members'. NOT decided: the recursive merge semantics over (document, text) pairs (model-level)."),
  note='Trusted: clang 14 front end and CFG; std::vector push/pop/back semantics. Two genuine defects found by these rules were repaired (known_findings.json fixed entries a74f3b2, ffd7b65).',
  design='5/C19, 9.4'),
}

# clauses added after the level texts above were written (DESIGN.md 9.3 describes each); appended to the claimed level
ADDENDA = {
 'C01': "Added later (DESIGN.md 9.3): the first error a sub-parser reports is kept - no store to the error field is reachable once it is known non-zero (E1.first-error; found and fixed 47c8fbb), and every store that can clear the field, and every call that contains one, happens where the field is known zero (interprocedural Must analysis E1.error-sticky), so a fault reported only through the field cannot be wiped by a later number; the control-byte screen, block predicates and mask classes of the string scanner (shared with C05), the SIMD mask width/composition (C15) and the cached white-space bitmap shift range (C11) are re-checked here on K1 and K3. The fault-class naming is thus decided for nested values; which class a truncated text gets is not. Round 11: SetUp's node-stack capacity evaluated for text lengths 0..400 and large ones: >= (len+1)/2, the most live nodes a valid text can have (E5.setup-bound, shared with C02). Round 13: the escape-decoding rules of C05 (escape table, hex decoding by evaluation, surrogate rules, UTF-8 encoder) are run here too.",
 'C02': "Added later: every pushed node-stack slot is typed before any exit that lets TearDown see it (E2.slot-init); Parser/SkipScanner objects are fresh locals serving one buffer (E7.fresh-parser); a pool chunk created for a request covers it (E2.chunk-size, by evaluation) and the user-buffer alignment skip is accounted for (E5.align-buffer); every (x+a)&m size rounding uses ~a at the full width (E5.round-up); the 800-digit Decimal of the slow number path keeps every subscript below capacity and its digit count <= 800 at every exit and call (zone abstract interpretation, E3.digit-capacity; upper side only). Round 11: E5.setup-bound; the UTF-8 encoder rejects values above U+10FFFF so that a malformed \\u cannot swallow the sentinel (E5.utf8, shared with C05). Round 13: the control-byte screen of the string scanner (E2.control-screen, shared with C05).",
 'C03': "Added later: every Is* type predicate evaluated for every type tag and integer payloads around 2^63 (E5.kind-predicate); escape tables, surrogate arithmetic and the UTF-8 encoder (shared with C05); white-space table, SIMD mask width and composition for both kernels (shared with C15); scalar events store their value in their own kind (E9.event-kind, shared with C19). Round 10: the recombination of an escaped surrogate pair is evaluated for all single-bit / all-zero / all-one payloads (thorough: all 1024 high surrogates) against 0x10000 + (hi-0xD800)*0x400 + (lo-0xDC00) (E5.surrogate-value, shared with C05). Round 12: the exact fast path of parseFloatingFast multiplies / divides only exact operands (shared with C04). Round 13: the node the SAX handler builds from the canonical event sequence of a text equals the tree of the text, for 216 trees (E6.dom-build: the handler's event methods interpreted on the node / block model) - this covers the node copying and parent-index chaining previously listed as not decided, up to the bound.",
 'C04': "Added later: a zero mantissa never reaches the normalising converters (E2.nonzero-mantissa), SetDecimal's decimal point accounts for dropped digits (E2.decimal-point), every digit loop adds the digit, sets the truncation flag or runs only on '0' (E2.trunc-set), the ambiguity window of ParseFloatingNormalFast (E5.ambiguity-window), simd_str2int evaluated over the digit basis instead of trusted (E5.simd-digits), the infinity error set by parseNumber reaches the caller unchanged (E1.first-error, shared with C01), the Decimal digit buffer capacity discipline (E3.digit-capacity, shared with C02). Round 11: the early-out bounds of the big-decimal fallback on the decimal-point position (overflow only from 10^309, zero only below 10^-324; E5.decimal-window). Round 13: the big-decimal input loop stores every digit, sets the truncation flag, or is taken only for '0' (E2.trunc-set for SetDecimal).",
 'C05': "Added later: the byte after a high surrogate's escape is tested as an escape introducer at the right offsets (E2.escape-introducer); the unsigned vector relational operators really are unsigned (E9.unsigned-lanes); for on-demand keys the has-escape flag, the hand-over of the escape carry between SkipString's loops and the GetEscaped bit trick (evaluated against the sequential definition for all 10/16-bit backslash masks, E5.escaped-bits) decide where a key literal ends; the error class set by the string scanner is kept (E1.first-error). Runs on K1, K3 and K4 in the quick tier. Round 10: E5.surrogate-value (see C03). Round 11: mask width / composition of the kernels the string skipper uses (shared with C15). Round 13: hex_to_u32_nocheck is decided by evaluation over ~4300 four-byte words: four hex digits give their value, anything else a value above 0xFFFF (E5.hex-value); the table-shape rule no longer insists on one spelling of the lookup.",
 'C06': "Added later: Stack::Grow is evaluated, no longer trusted (E4.grow-contract); non-finite doubles of both signs are refused, not printed (E5.nonfinite); the string writer's reserve formula, tail page guard and bounce copy (shared with C09) also under K8 (dynamic dispatch on an SSE baseline); each number kind goes to the writer of its own signedness (E9.kind-dispatch); every character of a number text is a digit (E3.kdigits-index for ftoa.h, E3.digit-char); capacity rounding is a true round-up (E5.round-up); escape tables (C09/C05). The separator / bracket / parent-stack logic - previously not decided - is now decided up to a bound: SerializeImpl's CFG is interpreted for every DOM tree shape of nesting depth <= 2 with <= 2 members over {number, string}, depth 3 with restricted arity (thorough: arity 2 everywhere, ~27000 shapes), every leaf kind in every position of arrays of <= 3 and objects of <= 2 members, and the error trees (non-string key, non-finite double); node / write-buffer / stack methods are answered from a model of the library's node layout, the value writers by their contracts; the text left in the buffer must equal the minified JSON text of the tree (E6.serializer). Round 10: the exploration includes two-call histories (a serialization that fails inside an open container, then a valid one) with a static / thread_local parent stack kept across calls; no address inside the write buffer or parent stack is used after a push that may reallocate it (E8.stable-pointer). Round 11: E5.format (the double writer's contract is now decided, see C07).",
 'C07': "Added later: the exponent computation evaluated for all 2046 binary exponents with undefined-behaviour detection; non-finite patterns by evaluation (E5.nonfinite); the interval-endpoint parity rule restated semantically (E9.interval-parity); no lossy 64->32 narrowing in ftoa.h (E3.lossless-narrowing); every digit pair copied from the two-digit table lies inside the 100 pairs and every '0'+x has x in [0,9] under the path guards (E3.kdigits-index, E3.digit-char; contract: decimal exponent in [-343, 308]). Round 11: the formatting stage of F64toa is evaluated with a byte memory for both signs, every digit count, two to four digit patterns and every decimal-point position around the fixed-notation window plus exponent samples (3500 evaluations quick): every store inside the 32-byte buffer, returned length within it, text is a JSON number whose exact value is sig x 10^exp (E5.format, shared with C06).",
 'C08': "Added later: the U64toa dispatch evaluated at every digit-count boundary (exact group decomposition, E5.split); I64toa evaluated on the int64 boundary values with undefined-behaviour detection (E2.sign; found and fixed 4bed96e); scalar reciprocals (v*M)>>S divide exactly on v's interval (E5.reciprocal); the serializer's number sub-type switch sends each kind to a writer of its own signedness (E9.kind-dispatch). Round 11: K3 (SSE entry points) in the quick tier. Round 13: no address inside the write buffer is kept across a Grow in the serializer (E8.stable-pointer).",
 'C09': "Added later: DoEscape reads the source cursor only with a byte remaining (E2.escape-peek); the unsigned vector compares are unsigned (E9.unsigned-lanes); all rules also run on K4 and K8 (dynamic dispatch, AVX2 and SSE baselines) in the quick tier, so a reservation chosen by a compile-time ISA macro is checked against the widest kernel that can run. Round 11: the scalar needs-escape predicate is decided by evaluating GetEscapeMask4 and DoEscape's continue decision for all 256 byte values, independent of how the predicate is represented (E5.escape-predicate). Round 13: K9 (SSE kernel under AddressSanitizer) in the quick tier.",
 'C10': "Added later: GetArrayElem never counts the closing bracket as an element (E2.array-end; found and fixed f8dcfad); an escaped key is decoded before comparison whenever it could match (E2.key-decode); SkipString's has-escape flag and escape-carry hand-over (E2.escape-flag, E2.escape-carry); GetEscaped evaluated against the sequential definition (E5.escaped-bits); mask width and bitmap shift range. Round 10: the tail of SkipContainer continues from the string / escape state carried by its block loop (E2.container-carry). Round 12: SkipLiteral evaluated with a byte memory mapping exactly [0, len): accepts exactly complete literals inside the text (also when the literal ends it), never reads at or behind len (E5.skip-literal, shared with C20).",
 'C11': "Added later: the cached-bitmap shift is dominated by pos < block_end (E3.shift-range); SIMD masks carry no bits above the lane count (E5.mask-width); runs on K1 and K3 in the quick tier.",
 'C12': "Added later: Clear() releases the lookup map with the children block (E2.map-pairing, Clear arm); the deep-copy rule of C13 (E8.deep-copy) and the comparator rules of C14. Round 11: the mutation API itself is decided against plain ordered containers by bounded exploration (E6.containers, sv/dom_model.py): the *Impl functions are interpreted from their CFGs over every operation sequence of length <= 2 (thorough 3) from five start states, for both allocator instantiations, on a model of children blocks / pointers / the lookup multimap / an allocation ledger; after every operation the container read back equals the reference list / ordered dict and FindMember finds exactly what is there. This replaces 'NOT decided: equality with the vector model' up to the stated bound. Round 12: the exploration also uses the pointer + length FindMember overload with the key as the first bytes of a longer buffer, looks every stored name of >= 2 bytes up through a shorter view that starts at the same address, and includes AddMember of a key that is already present.",
 'C13': "Added later: (g) Free(str_/schema_str_) only after the document's nodes were destroyed on the same path (E8.buffer-lifetime); (h) the map pointer inside a children block is reset only on a fresh block, under a no-previous-block test, or after the map was freed (E8.map-preserved); the deep-copy container arms set the copy's children from containerMalloc or null. Round 10: slots destroyed in place are only overwritten raw, never assigned (E8.dead-slots). Round 11: the same exploration with its allocation ledger decides release-exactly-once for the container mutation API (a double release is undefined behaviour in the model, anything live after the final destroy() is a leak).",
 'C14': "Added later: every return of the three-way compare family is 0, a forwarded compare in operand order or an unsigned byte difference; a sign taken from a signed vector compare is a violation (E5.unsigned-order); the in-page guard evaluated for every page offset and both address orders; the lookup-map comparator is decided by evaluation on 273 key pairs against unsigned lexicographic order (E2.map-order; previously a name-based presence check); K3 in the quick tier. Round 10: every equality compare of string-view data (any file of the DOM / on-demand layer) is dominated by a size equality (E2.key-length, generalised). Round 11: the compare skeleton reports shifts outside the operand width (undefined; e.g. 1u << 32) and evaluates the in-page and cross-page cases for every length up to 64. Round 13: no signed arithmetic on a movemask result (E5.mask-arith; found and fixed b486262: INT_MAX + 1 when only the last byte of a block differs).",
 'C15': "Added later: SIMD mask width and composition (E5.mask-width, E5.mask-compose), unsigned lanes (E9.unsigned-lanes), leaf bit primitives evaluated incl. undefined behaviour (E5.bit-primitive), the comparator's unsigned order (C14), and the string skipper's escape hand-over and GetEscaped bit trick for each block width (C10). Round 10: E2.container-carry for both kernels. Round 13: byte coverage of the AVX2-only equality kernel (E3.compare-coverage, shared with C14).",
 'C16': "Added later: ChunkSize evaluated on a grid with every break point; align-buffer knows std::align and demands the capacity be derived from the same adjusted size; every (x+a)&m rounding has m == ~a at the full width of x (E5.round-up). Round 10: Clear / Size / Capacity interpreted over chunk chains of 1..4 chunks: the surviving chunk is the first one with size 0, every other chunk freed exactly once and not touched afterwards, the sums are exact (E5.chunk-chain). Round 13: the allocator itself is explored against its specification (E6.pool): Malloc / Realloc / AddChunk / ChunkSize (both policies) / Clear / Size / Capacity interpreted on a chunk model over ~3500 operation sequences; alignment, containment in a live chunk, disjointness since the last Clear, stability, in-place growth exactly when it fits, copy on relocation, null for size 0, exact accounting - replacing the earlier 'NOT decided' for histories up to the stated bound.",
 'C17': "Added later: every compare_exchange attempt of the spin lock starts from expected == false (E7.lock-acquire); any non-rvalue use of a mutable static counts as a write; one buffer per parser object; the dynamic-dispatch front end (K8) is analysed in the quick tier, so process-wide state there (lazily bound kernel pointers) is seen. Round 11: calls on the chunk policy object (which may update itself) are shared pool state and must be inside the lock (E7.lock-scope).",
 'C18': "Added later: shares the map-maintenance pairing of C12 and the comparator rules of C14 (equality looks members up through the same map). Round 10: operator== itself is decided against JSON value equality by exhaustive interpretation of its CFG over ordered pairs of small trees (all leaf kinds and storage flags, containers of <= 2 members in both key orders, nested representatives, three-member objects in every order; ~1300 pairs quick); reads at or behind the end of a member / element block are undefined behaviour in the model (E6.equality). Round 12: shares the container exploration of C12 (FindMember finds exactly the members that are there after any mutation history, linear and through the map).",
 'C19': "Added later: shares C13's buffer-lifetime and destroy-before-overwrite rules for the handler's End* functions; every scalar event (Bool/Uint/Int/Double) hands its value to a setter / constructor of its own type with no converting cast (E9.event-kind). Round 10: declared keys are matched by their whole name (E2.key-length and the map comparator, shared with C14). Round 12: the merge semantics themselves - previously 'NOT decided (model-level)' - are decided up to a bound: the SchemaHandler event methods are interpreted from their CFGs on the node / block / ledger model, driven like parseImpl drives a check_key_return handler, for ~11000 (existing document, text) pairs and ~3000 two-text histories over a universe of all leaf kinds, containers of <= 2 members in both key orders, nested representatives and the shapes of the two repaired defects; the document afterwards must equal merge(existing, text), nothing may be leaked or released twice (E6.schema-merge). Pairs where an empty text object meets a non-empty existing object are excluded (the property's clauses disagree there).",
 'C20': "Added later: the merge skeleton - 16 truth assignments of the kind/emptiness tests reach 'replace' or 'merge' as the specification says (E2.merge-decision), the loop visits every source member (E2.merge-loop), success only after replacement or loop completion (E2.merge-complete); one parser object per lazy parse (E7.fresh-parser); SkipString escape flag/carry and GetEscaped evaluation (shared with C10); the lookup-map comparator through which source keys are matched (E2.map-order, E5.unsigned-order, shared with C14). Round 10: the lazy handler keeps no address inside its reallocating node stack (E8.stable-pointer); SkipContainer's tail state (E2.container-carry). Round 12: E5.skip-literal (a lazily parsed true / false / null, also as the whole text). Round 13: the lazy SAX handler interpreted with a reallocating node stack for objects / arrays of 0..40 members (E6.lazy-build).",
}
NA_REASON = {
}
checks = []
na = []
for p in props:
    if p in CLAIMS:
        c = CLAIMS[p]
        checks.append(dict(
            property_id=p,
            quick_cmd='./check %s --tier quick' % p,
            thorough_cmd='./check %s --tier thorough' % p,
            evidence_file='evidence/%s.json' % p,
            replay_cmd_template='./check %s --replay {path}' % p,
            engine='sv',
            level_claimed=dict(category=c['category'], text=c['text'] + (' ' + ADDENDA[p] if p in ADDENDA else ''), design_ref=c['design'] + ', 9.3'),
            level_note=c['note'],
            technique=c['technique']))
    else:
        na.append(dict(property_id=p, reason=NA_REASON.get(p, 'static check not built yet in this round (planned clause in DESIGN.md section 5); not claimed until the rule exists and is silent on the unchanged tree')))
m = dict(
    version=1,
    setup_cmd='sh ./setup.sh',
    hooks=dict(guard='BYTEDANCE_SONIC_CPP_VERIF', enable='none needed: every check parses the unmodified headers (no hooks in /repo)',
               baseline_off_cmd='cmake --build /repo/_build -j16 && cd /repo && ./_build/tests/unittest',
               source_commits=[], add_only=True),
    engines=[dict(name='sv', path='sv/', serves_properties=sorted(CLAIMS),
                  kind_free_text='libTooling fact extractor (tools/sonic-facts) + Python rule engines over clang CFG/AST/constant facts; no execution of library code')],
    checks=checks,
    notes='Static analysis only. Exit codes: 0 held, 1 VIOLATION, 2 analysis broken (anchor vanished / rule below confirmed instance count). Known findings: known_findings.json.',
    not_applicable=na)
json.dump(m, open(os.path.join(V, 'MANIFEST.json'), 'w'), indent=1)
print('claimed:', sorted(CLAIMS), 'not_applicable:', [x['property_id'] for x in na])
