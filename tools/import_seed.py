#!/usr/bin/env python3
"""tools/import_seed.py <seedwork-dir> [detected|missed|...]: copy a confirmed seeded change into /verif/seeded/<id>/ and
remove its scratch worktree."""
import json, os, shutil, subprocess, sys
V = os.path.dirname(os.path.dirname(os.path.abspath(__file__)))
d = sys.argv[1].rstrip('/')
sid = os.path.basename(d)
out = os.path.join(d, 'out')
conf = json.load(open(os.path.join(out, 'confirm.json')))
ok = conf['apply'].startswith('ok') and conf['build'] == 'ok' and conf['tests'] == 'same' and conf['demo_rc_clean'] == 0 and conf['demo_rc_patched'] != 0
if not ok:
    sys.exit('NOT CONFIRMED: %s' % conf)
dst = os.path.join(V, 'seeded', sid)
os.makedirs(dst, exist_ok=True)
meta = json.load(open(os.path.join(out, 'meta.json')))
for f in os.listdir(out):
    if f.endswith(('.cpp', '.sh', '.h')) and os.path.getsize(os.path.join(out, f)) < 200000:
        shutil.copy(os.path.join(out, f), dst)
# the patch as rebased on the /repo HEAD it was confirmed against
shutil.copy(os.path.join(out, 'patch.rebased.diff'), os.path.join(dst, 'patch.diff'))
m = dict(
    id=sid, property=meta.get('property', sid.split('-')[0]),
    summary=meta.get('summary'), mechanism=meta.get('mechanism'), needs=meta.get('needs'),
    demo_cmd='sh run.sh <sonic-cpp checkout>   (exit 0 = property holds)',
    author_report=dict(demo_result_with_patch=meta.get('demo_result_with_patch'), demo_result_without_patch=meta.get('demo_result_without_patch'),
                       tests_before=meta.get('tests_before'), tests_after=meta.get('tests_after')),
    confirmed_by_me=dict(conf, what_i_ran='tools/confirm_seed.sh: fresh worktree of /repo HEAD, git apply patch, cmake+ninja unit-test build, ./_build/tests/unittest pass list compared with the unpatched baseline (176 tests), run.sh on /repo (exit 0) and on the patched worktree (exit != 0)'),
    origin='independent sub-agent given only the property text and its own scratch worktree',
)
json.dump(m, open(os.path.join(dst, 'meta.json'), 'w'), indent=1)
subprocess.run(['git', '-C', '/repo', 'worktree', 'remove', '--force', d])
shutil.rmtree(d, ignore_errors=True)
print('imported', sid)
