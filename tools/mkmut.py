#!/usr/bin/env python3
"""tools/mkmut.py NAME FILE OLD NEW [FILE2 OLD2 NEW2 ...]  — create selftest/mutants/NAME.patch by replacing
the (unique) text OLD by NEW in /repo/FILE (on a scratch copy; /repo is not touched)."""
import sys, os, subprocess, tempfile, shutil
V = os.path.dirname(os.path.dirname(os.path.abspath(__file__)))
name = sys.argv[1]
rest = sys.argv[2:]
tmp = tempfile.mkdtemp(prefix='mkmut-')
try:
    out = ''
    files = {}
    for k in range(0, len(rest), 3):
        f, old, new = rest[k:k + 3]
        src = files.get(f) or open(os.path.join('/repo', f)).read()
        old = old.encode().decode('unicode_escape'); new = new.encode().decode('unicode_escape')
        if src.count(old) != 1:
            sys.exit('OLD occurs %d times in %s' % (src.count(old), f))
        files[f] = src.replace(old, new)
    for f, txt in files.items():
        a = os.path.join(tmp, 'a', f); b = os.path.join(tmp, 'b', f)
        os.makedirs(os.path.dirname(a)); os.makedirs(os.path.dirname(b))
        shutil.copy(os.path.join('/repo', f), a)
        open(b, 'w').write(txt)
        p = subprocess.run(['diff', '-u', 'a/' + f, 'b/' + f], cwd=tmp, stdout=subprocess.PIPE)
        out += p.stdout.decode()
    open(os.path.join(V, 'selftest', 'mutants', name + '.patch'), 'w').write(out)
    print('wrote', name, len(out.splitlines()), 'lines')
finally:
    shutil.rmtree(tmp)
