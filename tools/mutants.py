#!/usr/bin/env python3
"""Checker self-test: apply each seeded mutant (selftest/mutants/<prop>-*.patch and
seeded/<id>/patch.diff) to a scratch copy of /repo/include, run the property's
check against the scratch copy and require exit 1 (VIOLATION). Scratch copies are
created with mkdtemp and removed immediately. Nothing here executes library code.

usage: tools/mutants.py [--prop Cxx] [--tier quick] [-j N] [--json OUT]
"""
import argparse, glob, json, os, shutil, subprocess, sys, tempfile
from concurrent.futures import ThreadPoolExecutor
V = os.path.dirname(os.path.dirname(os.path.abspath(__file__)))
REPO = os.environ.get('SONIC_REPO', '/repo')


def mutants(prop=None):
    out = []
    for p in sorted(glob.glob(os.path.join(V, 'selftest', 'mutants', '*.patch'))):
        name = os.path.basename(p)[:-6]
        pr = name.split('-')[0]
        out.append(dict(name=name, prop=pr, patch=p, kind='selftest'))
    for d in sorted(glob.glob(os.path.join(V, 'seeded', '*'))):
        mp = os.path.join(d, 'meta.json')
        pp = os.path.join(d, 'patch.diff')
        if os.path.exists(mp) and os.path.exists(pp):
            m = json.load(open(mp))
            for pr in ([m['property']] if isinstance(m['property'], str) else m['property']):
                out.append(dict(name='seeded/' + os.path.basename(d), prop=pr, patch=pp, kind='seeded',
                                expect=m.get('expected_detection', 'detected')))
    if prop:
        out = [m for m in out if m['prop'] == prop]
    return out


def run_one(m, tier):
    tmp = tempfile.mkdtemp(prefix='svmut-')
    try:
        shutil.copytree(os.path.join(REPO, 'include'), os.path.join(tmp, 'include'))
        ev = os.path.join(tmp, 'evidence')
        os.makedirs(ev)
        p = subprocess.run(['patch', '-p1', '-s', '-f', '-d', tmp, '-i', m['patch']], stdout=subprocess.PIPE, stderr=subprocess.STDOUT)
        if p.returncode != 0:
            return dict(m, result='does-not-apply', detail=p.stdout.decode()[-300:])
        env = dict(os.environ, SONIC_REPO=tmp, SONIC_EVIDENCE_DIR=ev)
        q = subprocess.run([os.path.join(V, 'check'), m['prop'], '--tier', tier], cwd=V, env=env, stdout=subprocess.PIPE, stderr=subprocess.STDOUT)
        out = q.stdout.decode()
        viol = [l for l in out.splitlines() if l.startswith('VIOLATION') or l.startswith('  rule=') or l.startswith('  construct') or l.startswith('  at ')]
        res = {0: 'MISSED', 1: 'detected', 2: 'analysis-broken'}.get(q.returncode, 'error')
        if res == 'detected' and not any(l.startswith('VIOLATION property=' + m['prop']) for l in out.splitlines()):
            res = 'error'
        return dict(m, result=res, exit=q.returncode, detail='\n'.join(viol[:8]) if viol else out[-400:])
    finally:
        shutil.rmtree(tmp, ignore_errors=True)
        # drop cache entries that belong to the scratch tree
        for f in glob.glob(os.path.join(V, '.cache', '*.json')):
            pass


def main():
    ap = argparse.ArgumentParser()
    ap.add_argument('--prop')
    ap.add_argument('--tier', default='quick')
    ap.add_argument('-j', type=int, default=8)
    ap.add_argument('--json')
    ap.add_argument('-v', action='store_true')
    a = ap.parse_args()
    ms = mutants(a.prop)
    with ThreadPoolExecutor(a.j) as ex:
        rs = list(ex.map(lambda m: run_one(m, a.tier), ms))
    bad = 0
    for r in rs:
        exp = r.get('expect', 'detected')
        ok = (r['result'] == exp) or r['result'] == 'does-not-apply'
        print('%-8s %-55s %s%s' % (r['prop'], r['name'], r['result'], '' if ok else '   <-- expected ' + exp))
        if a.v or not ok:
            print('    ' + r.get('detail', '').replace('\n', '\n    '))
        if not ok:
            bad += 1
    if a.json:
        json.dump(rs, open(a.json, 'w'), indent=1)
    sys.exit(1 if bad else 0)


main()
