#!/usr/bin/env python3
"""Silence self-test: apply each behaviour-preserving patch under selftest/refactors/ (written by independent
sub-agents: renames, named locals, extracted helpers, loop / branch rewrites, cast style, macro expansion; each keeps
the unit-test pass list identical) to a scratch copy of /repo/include and run the quick check of every property (or
--prop) against the copy.  A `VIOLATION` line is a false alarm; exit 2 means the check declared itself unable to
analyse the new shape.  Scratch copies are created with mkdtemp and removed immediately.  Nothing here executes
library code.

usage: tools/refactors.py [--prop Cxx] [--only substring] [-j N]
"""
import argparse, glob, os, shutil, subprocess, sys, tempfile
from concurrent.futures import ThreadPoolExecutor
V = os.path.dirname(os.path.dirname(os.path.abspath(__file__)))
REPO = os.environ.get('SONIC_REPO', '/repo')
PROPS = ['C%02d' % i for i in range(1, 21)]
ALL = []


def run_one(patch, props):
    tmp = tempfile.mkdtemp(prefix='svref-')
    out = []
    try:
        shutil.copytree(os.path.join(REPO, 'include'), os.path.join(tmp, 'include'))
        os.makedirs(os.path.join(tmp, 'evidence'))
        p = subprocess.run(['patch', '-p1', '-s', '-f', '-d', tmp, '-i', patch], stdout=subprocess.PIPE, stderr=subprocess.STDOUT)
        if p.returncode != 0:
            return [(os.path.basename(patch), '-', 'does-not-apply', '')]
        env = dict(os.environ, SONIC_REPO=tmp, SONIC_EVIDENCE_DIR=os.path.join(tmp, 'evidence'))
        for pr in props:
            q = subprocess.run([os.path.join(V, 'check'), pr, '--tier', 'quick'], stdout=subprocess.PIPE, stderr=subprocess.STDOUT, env=env)
            txt = q.stdout.decode(errors='replace')
            viol = [l for l in txt.splitlines() if l.startswith('VIOLATION')]
            if viol:
                rule = [l.strip() for l in txt.splitlines() if l.strip().startswith('rule=')]
                out.append((os.path.basename(patch), pr, 'FALSE-ALARM', '; '.join(rule[:3])))
            elif q.returncode == 2:
                br = [l for l in txt.splitlines() if l.startswith('ANALYSIS-BROKEN')]
                out.append((os.path.basename(patch), pr, 'analysis-broken', (br[0] if br else '')[:160]))
            elif q.returncode != 0:
                out.append((os.path.basename(patch), pr, 'rc=%d' % q.returncode, ''))
    finally:
        shutil.rmtree(tmp, ignore_errors=True)
    return out or [(os.path.basename(patch), '*', 'silent', '')]


def main():
    ap = argparse.ArgumentParser()
    ap.add_argument('--prop')
    ap.add_argument('--only')
    ap.add_argument('-j', type=int, default=6)
    ap.add_argument('--json')
    a = ap.parse_args()
    patches = sorted(glob.glob(os.path.join(V, 'selftest', 'refactors', '*.patch')))
    if a.only:
        patches = [p for p in patches if a.only in os.path.basename(p)]
    props = [a.prop] if a.prop else PROPS
    alarms = 0
    with ThreadPoolExecutor(max_workers=a.j) as ex:
        for res in ex.map(lambda p: run_one(p, props), patches):
            for name, pr, what, detail in res:
                ALL.append(dict(patch=name, prop=pr, result=what, detail=detail))
                print('%-22s %-4s %-16s %s' % (name, pr, what, detail))
                if what == 'FALSE-ALARM':
                    alarms += 1
    print('%d patches, %d false alarms' % (len(patches), alarms))
    if a.json:
        import json
        json.dump(dict(patches=len(patches), false_alarms=alarms, results=ALL), open(a.json, 'w'))
    sys.exit(1 if alarms else 0)


if __name__ == '__main__':
    main()
