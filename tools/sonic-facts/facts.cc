// sonic-facts: libTooling extractor. For every function defined under the
// analysed root (default /repo/include/sonic) and present in the TU (including
// template instantiations) it exports a normalised clang CFG with expression
// trees, plus static-storage variables with evaluated constant initialisers
// and class facts, as one JSON document on stdout.
//
// The tool only parses; it never compiles to object code and never runs
// library code. See /verif/DESIGN.md section 3.2.
#include "clang/AST/ASTConsumer.h"
#include "clang/AST/Attr.h"
#include "clang/AST/ParentMap.h"
#include "clang/AST/RecursiveASTVisitor.h"
#include "clang/Analysis/CFG.h"
#include "clang/Frontend/CompilerInstance.h"
#include "clang/Frontend/FrontendAction.h"
#include "clang/Lex/Lexer.h"
#include "clang/Tooling/CommonOptionsParser.h"
#include "clang/Tooling/Tooling.h"
#include "llvm/Support/CommandLine.h"
#include "llvm/Support/JSON.h"
#include <map>
#include <set>
using namespace clang;
namespace json = llvm::json;

static llvm::cl::OptionCategory Cat("sonic-facts");
static llvm::cl::list<std::string> Roots(
    "root", llvm::cl::desc("only export entities defined under this path prefix"),
    llvm::cl::cat(Cat));
static llvm::cl::list<std::string> FnFilter(
    "fn", llvm::cl::desc("only export functions whose name contains this"),
    llvm::cl::cat(Cat));
static llvm::cl::opt<bool> NoBodies("no-bodies", llvm::cl::cat(Cat));

namespace {

struct Ids {
  std::map<const void *, int64_t> m;
  int64_t get(const void *p) {
    auto it = m.find(p);
    if (it != m.end()) return it->second;
    int64_t v = (int64_t)m.size() + 1;
    m[p] = v;
    return v;
  }
};

struct Ex {
  ASTContext &C;
  const SourceManager &SM;
  Ids &ids;
  Ex(ASTContext &C, Ids &ids) : C(C), SM(C.getSourceManager()), ids(ids) {}

  std::string file(SourceLocation L) {
    auto P = SM.getPresumedLoc(SM.getExpansionLoc(L));
    if (P.isInvalid()) return "?";
    return P.getFilename();
  }
  std::string loc(SourceLocation L) {
    auto P = SM.getPresumedLoc(SM.getExpansionLoc(L));
    if (P.isInvalid()) return "?";
    return std::string(P.getFilename()) + ":" + std::to_string(P.getLine()) +
           ":" + std::to_string(P.getColumn());
  }
  std::string sloc(SourceLocation L) {  // spelling location (inside macros)
    auto P = SM.getPresumedLoc(SM.getSpellingLoc(L));
    if (P.isInvalid()) return "?";
    return std::string(P.getFilename()) + ":" + std::to_string(P.getLine()) +
           ":" + std::to_string(P.getColumn());
  }
  std::string qname(const NamedDecl *D) {
    std::string q;
    llvm::raw_string_ostream os(q);
    D->printQualifiedName(os);
    return os.str();
  }
  std::string diagname(const NamedDecl *D) {
    std::string q;
    llvm::raw_string_ostream os(q);
    D->getNameForDiagnostic(os, C.getPrintingPolicy(), true);
    return os.str();
  }
  std::string src(const Stmt *S, unsigned max = 160) {
    auto R = SM.getExpansionRange(S->getSourceRange()).getAsRange();
    auto T = Lexer::getSourceText(CharSourceRange::getTokenRange(R), SM,
                                  C.getLangOpts());
    std::string s = T.str();
    if (s.size() > max) s = s.substr(0, max);
    return s;
  }

  json::Value apv(const APValue &V, QualType T, unsigned depth = 0) {
    switch (V.getKind()) {
      case APValue::Int:
        return toString(V.getInt(), 10);
      case APValue::Float: {
        llvm::SmallString<32> s;
        V.getFloat().toString(s, 0, 0);
        json::Object o;
        o["f"] = s.str().str();
        o["bits"] = toString(V.getFloat().bitcastToAPInt(), 16, false);
        return std::move(o);
      }
      case APValue::Array: {
        json::Array a;
        QualType ET;
        if (auto *AT = C.getAsArrayType(T)) ET = AT->getElementType();
        unsigned n = V.getArrayInitializedElts();
        for (unsigned i = 0; i < n; i++)
          a.push_back(apv(V.getArrayInitializedElt(i), ET, depth + 1));
        json::Object o;
        o["arr"] = std::move(a);
        o["size"] = (int64_t)V.getArraySize();
        if (V.hasArrayFiller() && V.getArraySize() > n)
          o["filler"] = apv(V.getArrayFiller(), ET, depth + 1);
        return std::move(o);
      }
      case APValue::Struct: {
        json::Array a;
        const RecordDecl *RD = nullptr;
        if (auto *RT = T->getAs<RecordType>()) RD = RT->getDecl();
        unsigned i = 0;
        if (RD)
          for (auto *F : RD->fields()) {
            if (i < V.getStructNumFields())
              a.push_back(apv(V.getStructField(i), F->getType(), depth + 1));
            i++;
          }
        json::Object o;
        o["struct"] = std::move(a);
        return std::move(o);
      }
      case APValue::LValue: {
        json::Object o;
        if (auto B = V.getLValueBase()) {
          if (auto *E = B.dyn_cast<const Expr *>()) {
            if (auto *SL = dyn_cast<StringLiteral>(E->IgnoreParenImpCasts())) {
              // bytes as list of ints so that NULs and high bytes survive
              json::Array bs;
              for (unsigned char ch : SL->getBytes()) bs.push_back((int64_t)ch);
              o["strbytes"] = std::move(bs);
              o["off"] = (int64_t)V.getLValueOffset().getQuantity();
              return std::move(o);
            }
          }
          if (auto *D = B.dyn_cast<const ValueDecl *>()) {
            o["addr_of"] = qname(D);
            return std::move(o);
          }
        } else {
          o["nullptr"] = true;
          return std::move(o);
        }
        o["lvalue"] = "?";
        return std::move(o);
      }
      case APValue::Vector: {
        json::Array a;
        QualType ET;
        if (auto *VT = T->getAs<VectorType>()) ET = VT->getElementType();
        for (unsigned i = 0; i < V.getVectorLength(); i++)
          a.push_back(apv(V.getVectorElt(i), ET, depth + 1));
        json::Object o;
        o["vec"] = std::move(a);
        return std::move(o);
      }
      default: {
        json::Object o;
        o["unhandled"] = (int64_t)V.getKind();
        return std::move(o);
      }
    }
  }

  void declref(json::Object &o, const ValueDecl *D) {
    o["name"] = D->getNameAsString();
    o["id"] = ids.get(D->getCanonicalDecl());
    if (auto *V = dyn_cast<VarDecl>(D)) {
      if (isa<ParmVarDecl>(V))
        o["dk"] = "param";
      else if (V->hasGlobalStorage()) {
        o["dk"] = "global";
        o["qn"] = qname(V);
        if (V->isStaticLocal()) o["slocal"] = true;
      } else
        o["dk"] = "local";
    } else if (isa<FunctionDecl>(D)) {
      o["dk"] = "func";
      o["qn"] = qname(D);
    } else if (isa<EnumConstantDecl>(D)) {
      o["dk"] = "enum";
      o["qn"] = qname(D);
    } else if (isa<FieldDecl>(D)) {
      o["dk"] = "field";
    } else
      o["dk"] = "other";
  }

  json::Array args(llvm::iterator_range<CallExpr::const_arg_iterator> R) {
    json::Array a;
    for (auto *A : R) a.push_back(J(A));
    return a;
  }

  json::Value J(const Stmt *S) {
    if (!S) return nullptr;
    json::Object o;
    if (auto *E = dyn_cast<Expr>(S)) {
      if (auto *x = dyn_cast<ParenExpr>(E)) return J(x->getSubExpr());
      if (auto *x = dyn_cast<ExprWithCleanups>(E)) return J(x->getSubExpr());
      if (auto *x = dyn_cast<MaterializeTemporaryExpr>(E))
        return J(x->getSubExpr());
      if (auto *x = dyn_cast<CXXBindTemporaryExpr>(E)) return J(x->getSubExpr());
      if (auto *x = dyn_cast<ConstantExpr>(E)) return J(x->getSubExpr());
      if (auto *x = dyn_cast<SubstNonTypeTemplateParmExpr>(E))
        return J(x->getReplacement());
      if (auto *x = dyn_cast<CXXDefaultArgExpr>(E)) return J(x->getExpr());
      if (auto *x = dyn_cast<CXXDefaultInitExpr>(E)) return J(x->getExpr());
      o["t"] = E->getType().getAsString();
      if (!E->isValueDependent() && !E->getType()->isDependentType()) {
        Expr::EvalResult R;
        if (E->getType()->isIntegralOrEnumerationType() &&
            !E->HasSideEffects(C) && E->EvaluateAsInt(R, C)) {
          o["cv"] = toString(R.Val.getInt(), 10);
        }
      }
    }
    o["loc"] = loc(S->getBeginLoc());
    if (S->getBeginLoc().isMacroID()) o["sloc"] = sloc(S->getBeginLoc());
    if (auto *x = dyn_cast<IntegerLiteral>(S)) {
      o["k"] = "lit";
      o["v"] = toString(x->getValue(), 10, false);
    } else if (auto *x = dyn_cast<CharacterLiteral>(S)) {
      o["k"] = "lit";
      o["v"] = std::to_string(x->getValue());
      o["char"] = true;
    } else if (auto *x = dyn_cast<CXXBoolLiteralExpr>(S)) {
      o["k"] = "lit";
      o["v"] = x->getValue() ? "1" : "0";
    } else if (isa<CXXNullPtrLiteralExpr>(S) || isa<GNUNullExpr>(S)) {
      o["k"] = "lit";
      o["v"] = "0";
      o["null"] = true;
    } else if (auto *x = dyn_cast<FloatingLiteral>(S)) {
      o["k"] = "flit";
      llvm::SmallString<32> s;
      x->getValue().toString(s, 0, 0);
      o["v"] = s.str().str();
      o["bits"] = toString(x->getValue().bitcastToAPInt(), 16, false);
    } else if (auto *x = dyn_cast<StringLiteral>(S)) {
      o["k"] = "str";
      json::Array bs;
      for (unsigned char ch : x->getBytes()) bs.push_back((int64_t)ch);
      o["bytes"] = std::move(bs);
    } else if (auto *x = dyn_cast<DeclRefExpr>(S)) {
      o["k"] = "ref";
      declref(o, x->getDecl());
    } else if (auto *x = dyn_cast<MemberExpr>(S)) {
      o["k"] = "member";
      o["name"] = x->getMemberDecl()->getNameAsString();
      o["id"] = ids.get(x->getMemberDecl()->getCanonicalDecl());
      o["arrow"] = x->isArrow();
      if (auto *FD = dyn_cast<FieldDecl>(x->getMemberDecl())) {
        o["cls"] = qname(FD->getParent());
        if (FD->isMutable()) o["mutable"] = true;
      } else if (auto *VD = dyn_cast<VarDecl>(x->getMemberDecl())) {
        o["static_member"] = true;
        o["qn"] = qname(VD);
      }
      o["base"] = J(x->getBase());
    } else if (isa<CXXThisExpr>(S)) {
      o["k"] = "this";
    } else if (auto *x = dyn_cast<ArraySubscriptExpr>(S)) {
      o["k"] = "sub";
      o["base"] = J(x->getBase());
      o["idx"] = J(x->getIdx());
    } else if (auto *x = dyn_cast<UnaryOperator>(S)) {
      o["k"] = "un";
      o["op"] = UnaryOperator::getOpcodeStr(x->getOpcode()).str();
      o["post"] = x->isPostfix();
      o["e"] = J(x->getSubExpr());
    } else if (auto *x = dyn_cast<BinaryOperator>(S)) {
      o["k"] = "bin";
      o["op"] = x->getOpcodeStr().str();
      o["l"] = J(x->getLHS());
      o["r"] = J(x->getRHS());
    } else if (auto *x = dyn_cast<ConditionalOperator>(S)) {
      o["k"] = "cond";
      o["c"] = J(x->getCond());
      o["a"] = J(x->getTrueExpr());
      o["b"] = J(x->getFalseExpr());
    } else if (auto *x = dyn_cast<ExplicitCastExpr>(S)) {
      o["k"] = "cast";
      o["ck"] = x->getCastKindName();
      o["explicit"] = S->getStmtClassName();
      o["e"] = J(x->getSubExpr());
    } else if (auto *x = dyn_cast<CastExpr>(S)) {
      o["k"] = "cast";
      o["ck"] = x->getCastKindName();
      o["e"] = J(x->getSubExpr());
    } else if (auto *x = dyn_cast<CXXOperatorCallExpr>(S)) {
      o["k"] = "call";
      o["opcall"] = getOperatorSpelling(x->getOperator());
      if (auto *FD = x->getDirectCallee()) callee(o, FD);
      else o["callee"] = "?";
      o["args"] = args(x->arguments());
    } else if (auto *x = dyn_cast<CallExpr>(S)) {
      o["k"] = "call";
      if (auto *FD = x->getDirectCallee()) callee(o, FD);
      else {
        o["callee"] = "?";
        o["fn"] = J(x->getCallee());
      }
      if (auto *m = dyn_cast<CXXMemberCallExpr>(S))
        o["obj"] = J(m->getImplicitObjectArgument());
      o["args"] = args(x->arguments());
    } else if (auto *x = dyn_cast<CXXConstructExpr>(S)) {
      o["k"] = "ctor";
      callee(o, x->getConstructor());
      o["cls"] = qname(x->getConstructor()->getParent());
      json::Array a;
      for (auto *A : x->arguments()) a.push_back(J(A));
      o["args"] = std::move(a);
    } else if (auto *x = dyn_cast<CXXNewExpr>(S)) {
      o["k"] = "new";
      o["at"] = x->getAllocatedType().getAsString();
      json::Array a;
      for (auto *A : x->placement_arguments()) a.push_back(J(A));
      o["placement"] = std::move(a);
      if (x->isArray() && x->getArraySize())
        o["count"] = J(*x->getArraySize());
      o["init"] = J(x->getInitializer());
    } else if (auto *x = dyn_cast<CXXDeleteExpr>(S)) {
      o["k"] = "delete";
      o["array"] = x->isArrayForm();
      o["e"] = J(x->getArgument());
    } else if (auto *x = dyn_cast<InitListExpr>(S)) {
      o["k"] = "initlist";
      json::Array a;
      for (auto *A : x->inits()) a.push_back(J(A));
      o["args"] = std::move(a);
    } else if (isa<ImplicitValueInitExpr>(S) ||
               isa<CXXScalarValueInitExpr>(S)) {
      o["k"] = "zeroinit";
    } else if (auto *x = dyn_cast<DeclStmt>(S)) {
      o["k"] = "decl";
      json::Array a;
      for (auto *D : x->decls())
        if (auto *V = dyn_cast<VarDecl>(D)) {
          json::Object v;
          v["name"] = V->getNameAsString();
          v["id"] = ids.get(V->getCanonicalDecl());
          v["t"] = V->getType().getAsString();
          v["static"] = V->isStaticLocal();
          if (V->getTLSKind() != VarDecl::TLS_None) v["tls"] = true;
          v["loc"] = loc(V->getLocation());
          v["init"] = J(V->getInit());
          a.push_back(std::move(v));
        }
      o["vars"] = std::move(a);
    } else if (auto *x = dyn_cast<ReturnStmt>(S)) {
      o["k"] = "ret";
      o["e"] = J(x->getRetValue());
    } else if (auto *x = dyn_cast<UnaryExprOrTypeTraitExpr>(S)) {
      o["k"] = "sizeof";
      if (x->isArgumentType())
        o["of"] = x->getArgumentType().getAsString();
      else
        o["of_e"] = J(x->getArgumentExpr());
    } else if (auto *x = dyn_cast<CXXPseudoDestructorExpr>(S)) {
      o["k"] = "pseudodtor";
      o["e"] = J(x->getBase());
    } else {
      o["k"] = "other";
      o["cls"] = S->getStmtClassName();
      o["src"] = src(S);
      json::Array ch;
      for (auto *c : S->children()) ch.push_back(J(c));
      o["children"] = std::move(ch);
    }
    return std::move(o);
  }

  void callee(json::Object &o, const FunctionDecl *FD) {
    o["callee"] = qname(FD);
    o["cname"] = FD->getNameAsString();
    o["cdiag"] = diagname(FD);
    const FunctionDecl *Def = nullptr;
    const FunctionDecl *L = FD;
    if (FD->hasBody(Def) && Def) L = Def;
    else if (auto *P = FD->getTemplateInstantiationPattern())
      L = P;
    o["cloc"] = loc(L->getLocation());
    o["cid"] = ids.get(FD->getCanonicalDecl());
    if (auto *M = dyn_cast<CXXMethodDecl>(FD)) {
      o["ccls"] = qname(M->getParent());
      if (M->isConst()) o["cconst"] = true;
      if (M->isStatic()) o["cstatic"] = true;
    }
    if (FD->getBuiltinID()) o["builtin"] = true;
  }
};

static bool underRoots(const std::string &f) {
  if (Roots.empty()) return f.find("/include/sonic/") != std::string::npos;
  for (auto &r : Roots)
    if (f.compare(0, r.size(), r) == 0) return true;
  return false;
}

struct V : RecursiveASTVisitor<V> {
  ASTContext &C;
  Ids ids;
  Ex ex;
  json::Array funcs, statics, classes, enums;
  std::set<std::string> seenStatic, seenFunc, seenClass, seenEnum;
  V(ASTContext &C) : C(C), ex(C, ids) {}
  bool shouldVisitTemplateInstantiations() const { return true; }
  bool shouldVisitImplicitCode() const { return false; }

  bool VisitVarDecl(VarDecl *D) {
    if (!D->hasGlobalStorage() || isa<ParmVarDecl>(D)) return true;
    if (D->isInvalidDecl()) return true;
    if (D->getDeclContext()->isDependentContext()) return true;
    if (D->getType()->isDependentType()) return true;
    // pre-C++17 a static constexpr data member with an in-class initializer is
    // only a declaration; it is the same object the C++17 configs see as an
    // inline definition, so keep it
    bool inclassInit = D->isStaticDataMember() && D->hasInit() &&
                       D->getType().isConstQualified();
    if (!D->isThisDeclarationADefinition() && !D->isStaticLocal() && !inclassInit)
      return true;
    std::string f = ex.file(D->getLocation());
    if (!underRoots(f)) return true;
    std::string key = ex.diagname(D) + "@" + ex.loc(D->getLocation());
    std::string encl;
    if (auto *FD = dyn_cast_or_null<FunctionDecl>(D->getParentFunctionOrMethod()))
      encl = ex.diagname(FD);
    key += "@" + encl;
    if (!seenStatic.insert(key).second) return true;
    json::Object o;
    o["name"] = D->getNameAsString();
    o["qn"] = ex.qname(D);
    o["id"] = ids.get(D->getCanonicalDecl());
    o["t"] = D->getType().getAsString();
    o["loc"] = ex.loc(D->getLocation());
    o["const"] = D->getType().isConstQualified() ||
                 (C.getAsArrayType(D->getType()) &&
                  C.getBaseElementType(D->getType()).isConstQualified());
    o["constexpr"] = D->isConstexpr();
    o["tls"] = D->getTLSKind() != VarDecl::TLS_None;
    o["slocal"] = D->isStaticLocal();
    o["func"] = encl;
    QualType BT = C.getBaseElementType(D->getType());
    std::string bts = BT.getAsString();
    o["atomic"] = bts.find("atomic") != std::string::npos;
    if (D->hasInit() && !D->getInit()->isValueDependent()) {
      if (const APValue *AV = D->evaluateValue()) {
        if (AV->getKind() != APValue::None &&
            AV->getKind() != APValue::Indeterminate)
          o["value"] = ex.apv(*AV, D->getType());
      } else {
        o["init"] = ex.J(D->getInit());
      }
      if (BT->isRecordType() && !o.get("init"))
        o["init"] = ex.J(D->getInit());  // string-literal members of struct tables
    }
    statics.push_back(std::move(o));
    return true;
  }

  bool VisitEnumDecl(EnumDecl *D) {
    if (!D->isThisDeclarationADefinition() || D->isDependentContext()) return true;
    std::string f = ex.file(D->getLocation());
    if (!underRoots(f)) return true;
    std::string key = ex.qname(D) + "@" + ex.loc(D->getLocation());
    if (!seenEnum.insert(key).second) return true;
    json::Object o;
    o["qn"] = ex.qname(D);
    o["loc"] = ex.loc(D->getLocation());
    json::Array vs;
    for (auto *E : D->enumerators()) {
      json::Object eo;
      eo["name"] = E->getNameAsString();
      eo["v"] = toString(E->getInitVal(), 10);
      vs.push_back(std::move(eo));
    }
    o["values"] = std::move(vs);
    enums.push_back(std::move(o));
    return true;
  }

  bool VisitCXXRecordDecl(CXXRecordDecl *D) {
    if (!D->isThisDeclarationADefinition() || D->isDependentContext() ||
        D->isLambda())
      return true;
    std::string f = ex.file(D->getLocation());
    if (!underRoots(f)) return true;
    std::string key = ex.diagname(D) + "@" + ex.loc(D->getLocation());
    if (!seenClass.insert(key).second) return true;
    json::Object o;
    o["name"] = ex.diagname(D);
    o["qn"] = ex.qname(D);
    o["loc"] = ex.loc(D->getLocation());
    json::Array fs;
    for (auto *F : D->fields()) {
      json::Object fo;
      fo["name"] = F->getNameAsString();
      fo["t"] = F->getType().getAsString();
      fo["mutable"] = F->isMutable();
      if (!F->getType()->isDependentType() && !F->getType()->isIncompleteType() && !D->isInvalidDecl()) {
        fo["size"] = (int64_t)C.getTypeSizeInChars(F->getType()).getQuantity();
        fo["offset"] = (int64_t)(C.getFieldOffset(F) / 8);
      }
      fs.push_back(std::move(fo));
    }
    o["fields"] = std::move(fs);
    if (!D->isInvalidDecl() && D->isCompleteDefinition())
      o["size"] = (int64_t)C.getTypeSizeInChars(C.getRecordType(D)).getQuantity();
    json::Array bs;
    for (auto &B : D->bases()) bs.push_back(B.getType().getAsString());
    o["bases"] = std::move(bs);
    json::Array ms;
    for (auto *M : D->methods()) {
      json::Object mo;
      mo["name"] = M->getNameAsString();
      mo["const"] = M->isConst();
      mo["deleted"] = M->isDeleted();
      mo["defaulted"] = M->isDefaulted();
      mo["implicit"] = M->isImplicit();
      mo["access"] = (int64_t)M->getAccess();
      if (auto *CD = dyn_cast<CXXConstructorDecl>(M)) {
        mo["copy_ctor"] = CD->isCopyConstructor();
        mo["move_ctor"] = CD->isMoveConstructor();
      }
      mo["copy_assign"] = M->isCopyAssignmentOperator();
      mo["move_assign"] = M->isMoveAssignmentOperator();
      ms.push_back(std::move(mo));
    }
    o["methods"] = std::move(ms);
    classes.push_back(std::move(o));
    return true;
  }

  bool VisitFunctionDecl(FunctionDecl *F) {
    if (!F->doesThisDeclarationHaveABody() || F->isDependentContext())
      return true;
    if (F->isInvalidDecl()) return true;
    std::string f = ex.file(F->getLocation());
    if (!underRoots(f)) return true;
    std::string q = ex.diagname(F);
    if (!FnFilter.empty()) {
      bool hit = false;
      for (auto &s : FnFilter)
        if (q.find(s) != std::string::npos) hit = true;
      if (!hit) return true;
    }
    json::Object fo;
    fo["name"] = q;
    fo["qn"] = ex.qname(F);
    fo["short"] = F->getNameAsString();
    fo["loc"] = ex.loc(F->getLocation());
    fo["id"] = ids.get(F->getCanonicalDecl());
    fo["ret_t"] = F->getReturnType().getAsString();
    fo["tmpl"] = F->isTemplateInstantiation();
    if (auto *M = dyn_cast<CXXMethodDecl>(F)) {
      fo["cls"] = ex.diagname(M->getParent());
      fo["cls_qn"] = ex.qname(M->getParent());
      fo["const"] = M->isConst();
      fo["static"] = M->isStatic();
      if (isa<CXXConstructorDecl>(M)) fo["ctor"] = true;
      if (isa<CXXDestructorDecl>(M)) fo["dtor"] = true;
    }
    json::Array tas;
    if (auto *TA = F->getTemplateSpecializationArgs())
      for (auto &A : TA->asArray()) {
        std::string s;
        llvm::raw_string_ostream os(s);
        A.print(C.getPrintingPolicy(), os, true);
        tas.push_back(os.str());
      }
    fo["targs"] = std::move(tas);
    json::Array attrs;
    for (auto *A : F->attrs()) {
      if (auto *T = dyn_cast<TargetAttr>(A))
        attrs.push_back("target:" + T->getFeaturesStr().str());
      else
        attrs.push_back(A->getSpelling());
    }
    fo["attrs"] = std::move(attrs);
    json::Array ps;
    for (auto *P : F->parameters()) {
      json::Object p;
      p["name"] = P->getNameAsString();
      p["t"] = P->getType().getAsString();
      p["id"] = ids.get(P->getCanonicalDecl());
      ps.push_back(std::move(p));
    }
    fo["params"] = std::move(ps);
    if (NoBodies) {
      funcs.push_back(std::move(fo));
      return true;
    }
    CFG::BuildOptions BO;
    BO.AddImplicitDtors = true;
    BO.AddInitializers = true;
    BO.PruneTriviallyFalseEdges = true;
    auto cfg = CFG::buildCFG(F, F->getBody(), &C, BO);
    if (!cfg) {
      fo["nocfg"] = true;
      funcs.push_back(std::move(fo));
      return true;
    }
    ParentMap PM(F->getBody());
    fo["entry"] = (int64_t)cfg->getEntry().getBlockID();
    fo["exit"] = (int64_t)cfg->getExit().getBlockID();
    json::Array bs;
    for (auto *B : *cfg) {
      json::Object bo;
      bo["id"] = (int64_t)B->getBlockID();
      if (auto *L = B->getLabel()) {
        if (auto *ls = dyn_cast<LabelStmt>(L))
          bo["label"] = ls->getName();
        else if (auto *cs = dyn_cast<CaseStmt>(L)) {
          Expr::EvalResult R;
          if (cs->getLHS()->EvaluateAsInt(R, C))
            bo["case"] = toString(R.Val.getInt(), 10);
          if (cs->getRHS() && cs->getRHS()->EvaluateAsInt(R, C))
            bo["case_hi"] = toString(R.Val.getInt(), 10);
        } else if (isa<DefaultStmt>(L))
          bo["case"] = "default";
      }
      const Stmt *lastCond = B->getLastCondition();
      const Stmt *termCond = B->getTerminatorCondition(true);
      if (lastCond && termCond && lastCond != termCond) {
        // getLastCondition() blindly returns the last element; when the
        // condition is a constant that the builder did not append (if
        // constexpr), that element is an unrelated statement. Accept it only if
        // it is the terminator condition or one of its sub-expressions.
        bool inside = false;
        for (const Stmt *P = lastCond; P; P = PM.getParent(P))
          if (P == termCond) { inside = true; break; }
        if (!inside) {
          const Stmt *P = termCond;
          // wrappers clang looks through when appending the condition
          while (true) {
            if (auto *x = dyn_cast<ConstantExpr>(P)) P = x->getSubExpr();
            else if (auto *x = dyn_cast<ExprWithCleanups>(P)) P = x->getSubExpr();
            else if (auto *x = dyn_cast<ParenExpr>(P)) P = x->getSubExpr();
            else break;
          }
          if (P == lastCond) inside = true;
        }
        if (!inside) lastCond = nullptr;
      }
      std::vector<const Stmt *> els;
      std::vector<json::Value> extra;
      std::vector<std::pair<size_t, json::Value>> interleaved;
      for (auto &E : *B) {
        if (auto S = E.getAs<CFGStmt>())
          els.push_back(S->getStmt());
        else if (auto I = E.getAs<CFGInitializer>()) {
          json::Object io;
          io["k"] = "init";
          auto *CI = I->getInitializer();
          if (CI->isAnyMemberInitializer()) {
            io["field"] = CI->getAnyMember()->getNameAsString();
            io["id"] = ids.get(CI->getAnyMember()->getCanonicalDecl());
          } else if (CI->isBaseInitializer())
            io["base"] = QualType(CI->getBaseClass(), 0).getAsString();
          else if (CI->isDelegatingInitializer())
            io["delegating"] = true;
          io["e"] = ex.J(CI->getInit());
          io["loc"] = ex.loc(CI->getSourceLocation());
          interleaved.emplace_back(els.size(), std::move(io));
        } else if (auto D = E.getAs<CFGAutomaticObjDtor>()) {
          json::Object d;
          d["k"] = "autodtor";
          d["name"] = D->getVarDecl()->getNameAsString();
          d["id"] = ids.get(D->getVarDecl()->getCanonicalDecl());
          d["t"] = D->getVarDecl()->getType().getAsString();
          d["loc"] = ex.loc(D->getTriggerStmt()->getEndLoc());
          interleaved.emplace_back(els.size(), std::move(d));
        }
      }
      llvm::DenseSet<const Stmt *> inblock(els.begin(), els.end());
      json::Array ss;
      size_t ii = 0;
      for (size_t i = 0; i <= els.size(); i++) {
        while (ii < interleaved.size() && interleaved[ii].first == i)
          ss.push_back(std::move(interleaved[ii++].second));
        if (i == els.size()) break;
        const Stmt *S = els[i];
        bool sub = false;
        const Stmt *P = PM.getParent(S);
        while (P) {
          if (inblock.count(P)) {
            sub = true;
            break;
          }
          if (!isa<Expr>(P)) break;
          P = PM.getParent(P);
        }
        if (sub) continue;
        if (lastCond && S == lastCond) continue;  // reported as term.cond
        ss.push_back(ex.J(S));
      }
      bo["stmts"] = std::move(ss);
      if (auto *T = B->getTerminatorStmt()) {
        json::Object t;
        t["cls"] = T->getStmtClassName();
        t["loc"] = ex.loc(T->getBeginLoc());
        if (lastCond) t["cond"] = ex.J(lastCond);
        else if (termCond && B->succ_size() == 2) { t["cond"] = ex.J(termCond); t["cond_not_in_block"] = true; }
        if (auto *IS = dyn_cast<IfStmt>(T)) t["constexpr"] = IS->isConstexpr();
        bo["term"] = std::move(t);
      }
      json::Array su, sup;
      for (auto S : B->succs()) {
        su.push_back(S.getReachableBlock()
                         ? json::Value((int64_t)S.getReachableBlock()->getBlockID())
                         : json::Value(nullptr));
        sup.push_back(S.getPossiblyUnreachableBlock()
                          ? json::Value((int64_t)S.getPossiblyUnreachableBlock()->getBlockID())
                          : json::Value(nullptr));
      }
      bo["succs"] = std::move(su);
      bo["succs_all"] = std::move(sup);
      bs.push_back(std::move(bo));
    }
    fo["blocks"] = std::move(bs);
    funcs.push_back(std::move(fo));
    return true;
  }
};

struct Cons : ASTConsumer {
  void HandleTranslationUnit(ASTContext &C) override {
    if (C.getDiagnostics().hasErrorOccurred()) {
      llvm::errs() << "sonic-facts: translation unit has errors\n";
    }
    V v(C);
    v.TraverseDecl(C.getTranslationUnitDecl());
    json::Object top;
    top["functions"] = std::move(v.funcs);
    top["statics"] = std::move(v.statics);
    top["classes"] = std::move(v.classes);
    top["enums"] = std::move(v.enums);
    top["errors"] = C.getDiagnostics().hasErrorOccurred();
    llvm::outs() << json::Value(std::move(top)) << "\n";
  }
};
struct Act : ASTFrontendAction {
  std::unique_ptr<ASTConsumer> CreateASTConsumer(CompilerInstance &,
                                                 StringRef) override {
    return std::make_unique<Cons>();
  }
};
}  // namespace

int main(int argc, const char **argv) {
  auto P = tooling::CommonOptionsParser::create(argc, argv, Cat);
  if (!P) {
    llvm::errs() << llvm::toString(P.takeError()) << "\n";
    return 2;
  }
  tooling::ClangTool T(P->getCompilations(), P->getSourcePathList());
  return T.run(tooling::newFrontendActionFactory<Act>().get());
}
