#!/usr/bin/env python3
"""regenerate the table of DESIGN.md section 9.3 from evidence/*.json (run all quick checks first)"""
import json, os, re
V = os.path.dirname(os.path.dirname(os.path.abspath(__file__)))
rows = []
for i in range(1, 21):
    p = 'C%02d' % i
    d = json.load(open(os.path.join(V, 'evidence', p + '.json')))
    c = d['coverage']
    if d.get('tier') != 'quick':
        raise SystemExit('%s evidence is from the %s tier: run ./check %s first' % (p, d.get('tier'), p))
    units = '+'.join(sorted(u.split('/')[-1] for u in c.get('units', [])))
    ri = c.get('rule_instances', {})
    rows.append('| %s (%s) | %s |' % (p, units, ', '.join('%s %d' % (k, v) for k, v in sorted(ri.items()))))
s = open(os.path.join(V, 'DESIGN.md')).read()
m = re.search(r'(### 9\.3[^\n]*\n\n\| prop \(units\) \| rules \(obligations discharged\) \|\n\|[-| ]+\|\n)((?:\| C\d\d [^\n]*\n)+)', s)
assert m, 'table not found'
s = s[:m.start(2)] + '\n'.join(rows) + '\n' + s[m.end(2):]
open(os.path.join(V, 'DESIGN.md'), 'w').write(s)
print('9.3 regenerated: %d rows' % len(rows))
