#!/bin/sh
# tools/confirm_seed.sh <seedwork-dir> : independently confirm a seeded change delivered under <dir>/out:
#  - patch applies to a fresh worktree of /repo HEAD, the unit tests build and the pass list equals the baseline's
#  - demo run.sh exits 0 on /repo and non-zero on the patched worktree
# Writes <dir>/out/confirm.json. Removes its scratch worktree afterwards.
set -u
D=$1; ID=$(basename $D); W=/tmp/confirm-$ID
OUT=$D/out
rm -rf $W; git -C /repo worktree prune; git -C /repo worktree add -q --detach $W HEAD || exit 3
cd $W
res_apply=ok; git apply $OUT/patch.diff 2>$OUT/confirm_apply.log || res_apply=FAILED
if [ $res_apply = FAILED ]; then git apply --3way $OUT/patch.diff 2>>$OUT/confirm_apply.log && res_apply=ok-3way; fi
git diff > $OUT/patch.rebased.diff
cmake -S . -B _build -G Ninja -DCMAKE_BUILD_TYPE=RelWithDebInfo -DFETCHCONTENT_TRY_FIND_PACKAGE_MODE=ALWAYS -DFETCHCONTENT_UPDATES_DISCONNECTED=ON -DFETCHCONTENT_SOURCE_DIR_GOOGLETEST=/usr/src/googletest -DCMAKE_CXX_FLAGS=-Wno-error >/dev/null 2>&1
res_build=ok; cmake --build _build -j4 >$OUT/confirm_build.log 2>&1 || res_build=FAILED
./_build/tests/unittest 2>&1 | grep -E "^\[       OK \]" | sed 's/ (.*//' | sort > $OUT/confirm_pass.txt
res_tests=same; diff -q /tmp/baseline_pass.txt $OUT/confirm_pass.txt >/dev/null || res_tests=DIFFERENT
sh $OUT/run.sh /repo > $OUT/confirm_demo_clean.log 2>&1; rc_clean=$?
sh $OUT/run.sh $W > $OUT/confirm_demo_patched.log 2>&1; rc_patched=$?
npass=$(wc -l < $OUT/confirm_pass.txt)
cat > $OUT/confirm.json <<J
{"id":"$ID","repo_head":"$(git -C /repo rev-parse --short HEAD)","apply":"$res_apply","build":"$res_build","tests":"$res_tests","tests_passed":$npass,"demo_rc_clean":$rc_clean,"demo_rc_patched":$rc_patched}
J
cat $OUT/confirm.json
cd /; git -C /repo worktree remove --force $W
