#!/bin/sh
# MANIFEST.setup_cmd: build the libTooling extractor from files on disk only (offline).
set -e
cd "$(dirname "$0")"
mkdir -p build .cache evidence/replay
if [ ! -x build/sonic-facts ] || [ tools/sonic-facts/facts.cc -nt build/sonic-facts ]; then
  clang++ $(llvm-config-14 --cxxflags) -fno-rtti -O1 tools/sonic-facts/facts.cc -o build/sonic-facts \
    /usr/lib/llvm-14/lib/libclang-cpp.so.14 /usr/lib/llvm-14/lib/libLLVM-14.so
fi
echo "setup ok: $(ls -la build/sonic-facts)"
