// C17 witnesses: a const (shared, read-only) document exposes no mutator. Every line carrying a
// (diagnostic marker) must fail to compile; the functions ok_* must compile.
#include "sonic/sonic.h"
using namespace sonic_json;
using SDoc = GenericDocument<DNode<SimpleAllocator>>;

void w1(const Document& d) { d["a"].SetNull(); }                  // expected-error {{}} // operator[] const must return a const node
void w2(const Document& d) { d.FindMember("a")->value.SetInt64(1); } // expected-error {{}} // const iterator yields const members
void w3(const Document& d, Document& o) { d.Swap(o); }               // expected-error {{}} // Swap is a mutator
void w4(const Document& d) { d.Parse("1"); }                         // expected-error {{}} // Parse is a mutator
void w5(const Document& d) { d.Begin()->SetNull(); }                 // expected-error {{}} // const array iteration
void w6(const Document& d) { d.AtPointer("a")->SetNull(); }          // expected-error {{}} // AtPointer const returns const NodeType*
void w7(const SDoc& d, SDoc::Allocator& a) { d.AddMember("k", SDoc::NodeType(1), a); } // expected-error {{}} // AddMember is a mutator
void w8(const SDoc& d) { d.Clear(); }                                // expected-error {{}} // Clear is a mutator
void w9(const Document& d) { d.MemberBegin()->value.SetNull(); }     // expected-error {{}} // const member iteration

// positive controls: the read-only API is usable on a const document
bool ok_1(const Document& d) { return d.IsObject() && d.HasMember("a") && d["a"].IsNull(); }
size_t ok_2(const Document& d) { return d.Size() + (d.FindMember("a") != d.MemberEnd()); }
SonicError ok_3(const Document& d, WriteBuffer& wb) { return d.Serialize(wb); }
