// C13 witnesses: shallow copies of owning types are unrepresentable. Every line carrying a
// (diagnostic marker) must fail to compile; the functions ok_* must compile.
#include "sonic/sonic.h"
#include "sonic/dom/schema_handler.h"
using namespace sonic_json;
using SNode = DNode<SimpleAllocator>;
using SDoc = GenericDocument<SNode>;

void w1(SNode& a) { SNode b(a); }                          // expected-error {{}} // node copy construction (only the deep copy with an allocator exists)
void w2(SNode& a, SNode& b) { a = b; }                     // expected-error {{}} // node copy assignment
void w3(const SNode& a, SNode& b) { b = a; }               // expected-error {{}} // node copy assignment from const
void w4(SDoc& a) { SDoc b(a); }                            // expected-error {{}} // document copy construction
void w5(SDoc& a, SDoc& b) { a = b; }                       // expected-error {{}} // document copy assignment
void w6(WriteBuffer& a) { WriteBuffer b(a); }              // expected-error {{}} // write buffer copy construction
void w7(WriteBuffer& a, WriteBuffer& b) { a = b; }         // expected-error {{}} // write buffer copy assignment
void w8(internal::Stack& a) { internal::Stack b(a); }      // expected-error {{}} // stack copy construction
void w9(internal::Stack& a, internal::Stack& b) { a = b; } // expected-error {{}} // stack copy assignment
void w10(SAXHandler<SNode>& a) { SAXHandler<SNode> b(a); } // expected-error {{}} // handler copy construction (owns the node stack)
void w11(SAXHandler<SNode>& a, SAXHandler<SNode>& b) { a = b; }     // expected-error {{}} // handler copy assignment
void w12(SchemaHandler<SNode>& a) { SchemaHandler<SNode> b(a); }    // expected-error {{}} // schema handler copy construction
void w13(SchemaHandler<SNode>& a, SchemaHandler<SNode>& b) { a = b; } // expected-error {{}} // schema handler copy assignment
void w14(Parser& a) { Parser b(a); }                       // expected-error {{}} // parser copy construction
void w15(Parser& a, Parser& b) { a = b; }                  // expected-error {{}} // parser copy assignment

// positive controls: moves and the explicit deep copy exist
void ok_1(SNode& a, SNode& b) { a = std::move(b); }
void ok_2(SNode& a, const SNode& b, SNode::AllocatorType& al) { a.CopyFrom(b, al); }
void ok_3(SDoc& a, SDoc& b) { a = std::move(b); a.Swap(b); }
void ok_4(WriteBuffer& a, WriteBuffer& b) { a = std::move(b); }
